#!/bin/bash
# try_seed.sh <Cxx> <patch> [extra args]  -- applies a seeded change to /repo, runs the quick check, reverts.
P=$1; PATCH=$2; shift 2
cd /repo && git apply "$PATCH" || { echo "PATCH DOES NOT APPLY"; exit 2; }
cd /verif && ./check $P --no-evidence "$@" 2>&1 | grep -E "^violation|^property=|HARNESS|KNOWN" | cut -c1-260
rc=${PIPESTATUS[0]}
cd /repo && git checkout -q -- . 
rm -f /verif/replays/$P-*
echo "exit=$rc"
