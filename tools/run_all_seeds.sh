#!/bin/bash
# run_all_seeds.sh [pattern]  -- sensitivity / false-alarm regression over /verif/seeded:
#   breaking seeds (meta.breaks_property = Cxx): apply to /repo, the quick check of Cxx must exit 1, revert;
#   neutral seeds (breaks_property = null): apply, every quick check must exit 0, revert.
# Seeds whose patch no longer applies to the current /repo HEAD are reported as SKIPPED.
cd /verif || exit 2
fail=0
for d in seeded/${1:-*}/; do
  id=$(basename "$d")
  prop=$(python3 -c "import json,sys; m=json.load(open('$d/meta.json')); print('OUT' if m.get('out_of_scope') else (m.get('breaks_property') or 'NEUTRAL'))")
  if [ "$prop" = "OUT" ]; then echo "$id out of scope of the claimed properties (kept for the record)"; continue; fi
  if ! git -C /repo apply --check "/verif/$d/patch.diff" 2>/dev/null; then echo "$id SKIPPED (patch does not apply to the current HEAD)"; continue; fi
  git -C /repo apply "/verif/$d/patch.diff"
  if [ "$prop" = "NEUTRAL" ]; then
    bad=""
    for p in C03 C04 C07 C08 C14 C17 C18 C19 C20; do
      ./check $p --no-evidence >/dev/null 2>&1 || bad="$bad $p"
      rm -f replays/$p-*
    done
    if [ -z "$bad" ]; then echo "$id neutral: quiet (ok)"; else echo "$id neutral: ALARM in$bad (FALSE ALARM)"; fail=1; fi
  else
    ./check $prop --no-evidence >/dev/null 2>&1; rc=$?
    rm -f replays/$prop-*
    want=$(python3 -c "import json; print(json.load(open('$d/meta.json')).get('expect_exit',1))")
    if [ $rc -eq 1 ] || [ $rc -eq $want ]; then echo "$id breaks $prop: caught (ok, exit $rc)"; else echo "$id breaks $prop: exit $rc (MISSED)"; fail=1; fi
  fi
  git -C /repo checkout -q -- .
done
exit $fail
