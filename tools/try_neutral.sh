#!/bin/bash
# try_neutral.sh <patch>  -- applies a behaviour-preserving change to /repo, runs every quick check, reverts.
# Every check must stay quiet (exit 0).
PATCH=$1
cd /repo && git apply "$PATCH" || { echo "PATCH DOES NOT APPLY"; exit 2; }
cd /verif
bad=0
for p in C03 C04 C07 C08 C14 C17 C18 C19 C20; do
  out=$(./check $p --no-evidence 2>&1); rc=$?
  echo "$out" | grep -E "^violation|HARNESS" | cut -c1-260
  echo "$p exit=$rc"
  [ $rc -ne 0 ] && bad=1
  rm -f /verif/replays/$p-*
done
cd /repo && git checkout -q -- .
echo "ALARM=$bad"
