#!/bin/bash
# confirm_seed.sh <worktree> <patch> <demo.rs>  -- confirms, in the scratch worktree, that the change compiles,
# passes the 102 unit tests, and that the demonstration fails with it and passes without it.
WT=$1; PATCH=$2; DEMO=$3
cd "$WT" || exit 2
git checkout -q -- . ; rm -rf rust/ommx/tests
mkdir -p rust/ommx/tests && cp "$DEMO" rust/ommx/tests/seed_demo.rs
echo "== without the change: demo"
cargo test -p ommx --offline --test seed_demo 2>&1 | grep -E "^test result|error(\[|:)" | head -3
git apply "$PATCH" || { echo "PATCH DOES NOT APPLY"; exit 2; }
echo "== with the change: unit tests"
cargo test -p ommx --offline --lib 2>&1 | grep -E "^test result|error(\[|:)" | head -3
echo "== with the change: demo"
cargo test -p ommx --offline --test seed_demo 2>&1 | grep -E "^test result|error(\[|:)" | head -3
git checkout -q -- . ; rm -rf rust/ommx/tests
