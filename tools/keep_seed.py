#!/usr/bin/env python3
"""keep_seed.py <id> <property> <outdir> <k> <caught_by> <needs...>  -- store a confirmed seeded change under /verif/seeded/<id>/"""
import sys, os, shutil, json
sid, prop, outdir, k, caught = sys.argv[1:6]
needs = " ".join(sys.argv[6:])
d = f"/verif/seeded/{sid}"
os.makedirs(d, exist_ok=True)
shutil.copy(f"{outdir}/patch{k}.diff", f"{d}/patch.diff")
shutil.copy(f"{outdir}/demo{k}.rs", f"{d}/demo.rs")
notes = open(f"{outdir}/notes{k}.md").read() if os.path.exists(f"{outdir}/notes{k}.md") else ""
open(f"{d}/notes.md", "w").write(notes)
json.dump({
  "breaks_property": prop,
  "needs_to_manifest": needs,
  "origin": "written by an independent sub-agent that saw only the property text and a scratch worktree of /repo",
  "confirmed": "tools/confirm_seed.sh in the scratch worktree: applies to HEAD, 102 unit tests pass with the change, demo.rs (as rust/ommx/tests/seed_demo.rs) fails with the change and passes without it",
  "checked_with": f"tools/try_seed.sh {prop} seeded/{sid}/patch.diff  (git -C /repo apply; ./check {prop} --tier quick --no-evidence; git -C /repo checkout -- .)",
  "caught_by": caught,
}, open(f"{d}/meta.json", "w"), indent=1)
print("kept", d)
