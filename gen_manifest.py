#!/usr/bin/env python3
"""Regenerates MANIFEST.json from the table below (single source of truth for the interface)."""
import json, os
NA = {
 "C01": "evaluation of one function at one state is a pure function of its two arguments; the state map is only looked up, never iterated; there is no schedule, clock, I/O or fault for a simulator to control",
 "C02": "operator algebra on ordered maps: deterministic, no I/O, no state carried between calls; a property of all input pairs, which seeded generation could sample but simulation adds nothing to",
 "C05": "Instance::evaluate is a pure function of (instance, state); its only schedule-dependent part (dependency evaluation order) is decided under C04",
 "C06": "sample-set evaluation vs single evaluation is a pure function of (instance, samples); grouping of IDs is part of the input and internal hash order is not observable through the compared API",
 "C09": "penalty methods consume an instance and return a new one: pure function, no history, no I/O",
 "C10": "with_parameters is a pure single call; no history, schedule or fault dimension",
 "C11": "QUBO/PUBO export is pure and uses ordered maps only",
 "C12": "log_encode is a single deterministic call; 'not a hang' here is an input-domain question (infinite bound), not progress under faults or schedules",
 "C13": "one deterministic call over a bounded lattice; error atomicity of a single pure call has no fault or schedule in it",
 "C15": "as_minimization_problem and best-sample selection are pure; candidates are iterated through ordered sets, so even ties are deterministic",
 "C16": "interval arithmetic is pure",
}
def chk(pid, level, text, note, technique, design_ref):
    return {
      "property_id": pid,
      "quick_cmd": f"./check {pid} --tier quick",
      "thorough_cmd": f"./check {pid} --tier thorough",
      "evidence_file": f"/verif/evidence/{pid}.json",
      "replay_cmd_template": f"./check {pid} --replay {{path}}",
      "engine": "ommx-dst",
      "level_claimed": {"category": level, "text": text, "design_ref": design_ref},
      "level_note": note,
      "technique": technique,
    }
CHECKS = [
 chk("C03", "exploration",
     "seeded search over (valid instance in arbitrary wire-legal representations, in-bound dyadic total assignment, split into 1-3 parts plus remainder, order of the parts, forced dependency-map order, hash seed): partial_evaluate on every function / constraint / removed constraint and as instance histories (given order, reverse order, all at once) with invariants after each step, then evaluate of the remainder; oracle = exact fixed-point Problem model evaluating the original at the combined assignment (objective, every constraint value, both feasibility flags, reported state), coefficient-by-coefficient equality of every partially evaluated function.",
     "trusts: the exact polynomial/Problem model in sim/src/model/{poly,exact}.rs; workloads restricted to small dyadic rationals so that equality is exact",
     "deterministic simulation (operation histories with scheduled map iteration orders, exact reference-model oracle after every step, shrinking + replay)",
     "DESIGN.md section 3 C03"),
 chk("C04", "exploration",
     "seeded search over four scenarios with exact oracles: Function::substitute vs polynomial composition (coefficient by coefficient and by value, simultaneous semantics); 1-3 successive Instance::substitute calls then evaluate vs the reference evaluation of the original with replaced variables set through the chain; dependency maps as they may arrive from the wire (chains, trees, diamonds, cycles, references to variables without value) under explicitly forced iteration orders of the map - all 120 orders of N five-entry graphs are enumerated - via evaluate and evaluate_samples: Ok with the reference values or Err, and never a hang (per-run watchdog turns non-termination into a replayable violation); log_encode + substitute + evaluate.",
     "trusts: exact polynomial/Problem model (model/poly.rs, model/exact.rs); map orders are forced by rebuilding the HashMap under successive RandomStates (an equal map in another order is a legal state of the same message); 'no hang' = 10 s wall-clock watchdog per run",
     "deterministic simulation (schedules = iteration orders of the dependency map, enumerated for n=5 and sampled otherwise; operation histories; exact reference-model oracle; watchdog for progress; shrinking + replay)",
     "DESIGN.md section 3 C04"),
 chk("C08", "fault_enumeration",
     "faulty-producer simulation: for each of N seeded valid messages (hints, dependencies, removed constraints; a quarter parametric) the well-formed original and EVERY single-fault mutation at EVERY position (duplicate each variable/constraint ID in every list combination, an undefined variable at each ID position of each function, each required field unset, each invalid bound shape on each variable, undefined/repeated IDs in each hint slot and dependency key, parameter/variable ID collisions), plus sampled pairs, are encoded, decoded and handed to validate() and try_from(); oracle = reference well-formedness model: validate() Ok exactly when the three ID rules hold, try_from Ok exactly when all rules hold, the reported error kind and context path name one of the injected faults, no well-formed message rejected, element-level typed views carry the content (absent bound = unbounded, [0,1] for binaries).",
     "trusts: the rule model judge() in sim/src/props/c08.rs; exhaustive only relative to the sampled messages and the listed fault kinds; the typed Instance exposes no accessors, so content is checked on the element-level typed views",
     "deterministic simulation with fault injection (fault enumeration: every single-fault mutation of a delivered message, pairs sampled; reference well-formedness model; shrinking + replay)",
     "DESIGN.md section 3 C08"),
 chk("C14", "exploration",
     "seeded search over histories of 1-9 operations relax(id, reason, params) / restore(id) / evaluate(state) with IDs drawn on purpose from the active list, the removed list and unknown IDs (a third of the mutating operations must fail): after every step conservation of (id, function, equality, metadata) over both lists, each ID in exactly one list, recorded reason and parameters, failing operation => Err and message == previous value; every evaluate equals the exact reference evaluation of the step-0 instance with relaxed feasibility over the currently active list.",
     "trusts: the two-list reference model in sim/src/props/c14.rs and the exact Problem model; valid instances only",
     "deterministic simulation (operation histories with failing operations as injected faults, reference-model invariants after every step, shrinking + replay)",
     "DESIGN.md section 3 C14"),
 chk("C17", "exploration",
     "seeded search over (abstract LP/MIP model, layout variant, container, entry point, chunking, fault plan): an independent renderer writes the MPS text in every layout variant of the statement, an independent gzip writer or flate2 packs it, and the real loaders read it from a simulated stream (load_raw_reader / load_zipped_reader) or the simulated disk (load_file) under short reads, EINTR, EIO at byte k (every k for N files, enumerated), open failure and one flipped container bit. Oracle: transient faults => Ok and exactly the expected problem (by name); hard fault or flipped bit => Err or the expected problem; each listed one-token corruption => Err.",
     "trusts: the reference model and renderer in sim/src/model/mps.rs (independent of the SDK's writer), the normal form in model/lp.rs; layouts the statement leaves open are not generated (listed in evidence assumptions)",
     "deterministic simulation with fault injection (simulated stream/disk, seeded schedules of chunking and read faults, reference-model oracle, shrinking + replay)",
     "DESIGN.md section 3 C17"),
 chk("C18", "exploration",
     "seeded search over (instance, write-side fault plan, read-side fault plan, chunking, hash seed): mps::write_file on a simulated disk (ENOSPC after a byte budget, EIO, EINTR, short writes, open failure), then mps::load_file fault-free ('acknowledged => complete and equal') and under read faults ('Err or equal'); nonlinear instances must be refused naming the offender. Sampling, not proof; every failure is shrunk and replayable.",
     "trusts: libc interposition reaching every file I/O entry point used (syscall counters in evidence), tmpfs as the disk, the reference normal form in sim/src/model/lp.rs; domains compared as sets",
     "deterministic simulation with fault injection (simulated disk via libc interposition, seeded fault plans, reference-model oracle, shrinking + replay)",
     "DESIGN.md section 3 C18"),
 chk("C19", "exploration",
     "seeded search over (abstract QP for a random type code, layout, entry point, chunking, fault plan, truncation point, corruption): an independent renderer writes the QPLIB text; qplib::load_file reads it from the simulated disk (QplibFile::from_reader from a simulated stream) under short reads, EINTR, EIO, open failure, truncation at byte k (every k for N files, enumerated) and one-token corruptions. Oracle: transient faults => Ok and exactly the expected problem (exact polynomial model with the 1/2 x'Qx convention); EIO => Err or equal; truncation before the last required line => Err (no panic) carrying a line number <= lines present + 1; corrupted token => Err carrying that token's line; table level: Err or the fault-free tables.",
     "trusts: the reference model and renderer in sim/src/model/qplib.rs and the exact fixed-point polynomial model in model/poly.rs; single-blank layouts only (see evidence assumptions)",
     "deterministic simulation with fault injection (simulated disk/stream, truncation = crash point of the producer, seeded read-fault schedules, reference-model oracle, shrinking + replay)",
     "DESIGN.md section 3 C19"),
 chk("C20", "exploration",
     "seeded search over histories of 0-6 add operations (four layer kinds, seeded messages, annotation specs, repeated messages sharing a digest, named/unnamed, optional config) built with the real Builder on a simulated disk under ENOSPC / EIO / EINTR / short writes / open failure and simulated-clock jumps, then read back with Artifact::from_oci_archive fault-free ('every builder call Ok => read equals the reference model of layers': order, media types, messages, annotation maps, every accessor, digest addressing, wrong-type and unknown-digest refusals, filtered lists, name, config), under read faults ('Err or the model'), and through archive -> OCI directory -> re-saved archive; non-OMMX images must be refused.",
     "trusts: the reference model of layers in sim/src/props/c20.rs, seeded message generators (model/gen_msg.rs); local registry and remote paths not exercised; time zone is process configuration",
     "deterministic simulation with fault injection (operation histories on a simulated disk and clock, reference model of the layer list, shrinking + replay)",
     "DESIGN.md section 3 C20"),
]
m = {
 "version": 1,
 "setup_cmd": "./check --build",
 "hooks": {
   "guard": "none (no hook was needed: all seams are libc symbols defined by the harness binary, impl Read / Image trait arguments and public message fields)",
   "enable": "n/a - checks build /repo/rust/ommx unmodified as a path dependency of /verif/sim",
   "baseline_off_cmd": "cd /repo && cargo test --workspace --no-fail-fast --offline",
   "source_commits": [],
   "add_only": True
 },
 "engines": [{"name": "ommx-dst", "path": "sim", "serves_properties": [c["property_id"] for c in CHECKS],
              "kind_free_text": "deterministic simulator: seeded scheduler + libc-interposed simulated OS (getrandom, clock_gettime, open/read/write/close) + in-memory Read/Image twins + schema-driven protobuf peer; reference models as oracles; shrinker and replay files"}],
 "checks": CHECKS,
 "not_applicable": [{"property_id": k, "reason": v} for k, v in sorted(NA.items())],
 "notes": "See DESIGN.md. Fix commits in /repo are listed in known_findings.json (fixed: entries suppress nothing)."
}
json.dump(m, open(os.path.join(os.path.dirname(__file__), "MANIFEST.json"), "w"), indent=1)
print("checks:", [c["property_id"] for c in CHECKS])
