//! Build script of the simulator.
//!  * exports the interposed libc symbols of the harness binary in its dynamic symbol table;
//!  * scans the working tree's checked-in prost bindings (rust/ommx/src/ommx.v1.rs) and generates the registry
//!    used by C07: for every message type a decode / re-encode / self-round-trip entry keyed by its protobuf
//!    full name, and a static table of every `#[prost(...)]` attribute (tag, scalar type keyword, label) and of
//!    every enum value, so that a type, field or value that exists on one side only is itself detectable.

use std::collections::BTreeMap;
use std::fmt::Write as _;



#[derive(Debug, Clone)]
struct Field {
    name: String,
    attr: String,
}
#[derive(Debug, Clone)]
struct Item {
    modpath: Vec<String>,
    name: String,
    /// "message" | "oneof" | "enum"
    kind: &'static str,
    fields: Vec<Field>,
    /// enum: (variant, number)
    values: Vec<(String, i64)>,
    /// enum: variant -> proto name
    str_names: BTreeMap<String, String>,
}

fn snake(s: &str) -> String {
    let mut out = String::new();
    for (i, c) in s.chars().enumerate() {
        if c.is_uppercase() && i > 0 {
            out.push('_');
        }
        out.extend(c.to_lowercase());
    }
    out
}

fn parse(src: &str) -> Vec<Item> {
    let mut items: Vec<Item> = vec![];
    let mut modstack: Vec<(String, i32)> = vec![];
    let mut depth: i32 = 0;
    let mut pending_derive: Option<&'static str> = None;
    let mut cur: Option<(usize, i32)> = None; // index into items, depth at which it closes
    let mut pending_attr: Option<String> = None;
    let mut in_str_name_impl: Option<(String, i32)> = None;
    let lines: Vec<&str> = src.lines().collect();
    let mut i = 0;
    while i < lines.len() {
        let line = lines[i].trim();
        i += 1;
        if line.starts_with("///") || line.starts_with("//") {
            continue;
        }
        if line.starts_with("#[derive(") {
            pending_derive = if line.contains("::prost::Message") {
                Some("message")
            } else if line.contains("::prost::Oneof") {
                Some("oneof")
            } else if line.contains("::prost::Enumeration") {
                Some("enum")
            } else {
                None
            };
        }
        if let Some(rest) = line.strip_prefix("pub mod ") {
            if let Some(name) = rest.strip_suffix(" {") {
                modstack.push((name.trim().to_string(), depth));
            }
        }
        if let Some(kind) = pending_derive {
            let head = if kind == "message" { "pub struct " } else { "pub enum " };
            if let Some(rest) = line.strip_prefix(head) {
                let name: String = rest.chars().take_while(|c| c.is_alphanumeric() || *c == '_').collect();
                items.push(Item { modpath: modstack.iter().map(|m| m.0.clone()).collect(), name, kind, fields: vec![], values: vec![], str_names: BTreeMap::new() });
                if line.ends_with('{') {
                    cur = Some((items.len() - 1, depth));
                }
                pending_derive = None;
            }
        }
        if let Some(rest) = line.strip_prefix("impl ") {
            // `impl Equality {` followed by as_str_name
            let name: String = rest.chars().take_while(|c| c.is_alphanumeric() || *c == '_').collect();
            if rest.trim_end().ends_with('{') && !rest.contains(" for ") {
                in_str_name_impl = Some((name, depth));
            }
        }
        if let Some((idx, _)) = cur {
            if line.starts_with("#[prost(") {
                let mut a = line.to_string();
                // attributes may continue on following lines
                while !a.trim_end().ends_with(")]") && i < lines.len() {
                    a.push(' ');
                    a.push_str(lines[i].trim());
                    i += 1;
                }
                pending_attr = Some(a);
            } else if let Some(attr) = pending_attr.clone() {
                if items[idx].kind == "message" {
                    if let Some(rest) = line.strip_prefix("pub ") {
                        let name: String = rest.chars().take_while(|c| c.is_alphanumeric() || *c == '_').collect();
                        items[idx].fields.push(Field { name, attr });
                        pending_attr = None;
                    }
                } else if items[idx].kind == "oneof" && !line.starts_with('#') && !line.is_empty() {
                    let name: String = line.chars().take_while(|c| c.is_alphanumeric() || *c == '_').collect();
                    if !name.is_empty() {
                        items[idx].fields.push(Field { name, attr });
                        pending_attr = None;
                    }
                }
            }
            if items[idx].kind == "enum" {
                // `Variant = 3,`
                if let Some((l, r)) = line.split_once(" = ") {
                    let name = l.trim();
                    let num = r.trim().trim_end_matches(',');
                    if name.chars().all(|c| c.is_alphanumeric() || c == '_') && !name.is_empty() {
                        if let Ok(n) = num.parse::<i64>() {
                            items[idx].values.push((name.to_string(), n));
                        }
                    }
                }
            }
        }
        if let Some((en, _)) = &in_str_name_impl {
            // `Equality::EqualToZero => "EQUALITY_EQUAL_TO_ZERO",` (only inside as_str_name)
            if let Some((l, r)) = line.split_once(" => ") {
                if let Some(v) = l.trim().strip_prefix(&format!("{}::", en)) {
                    if r.trim().starts_with('"') {
                        let s = r.trim().trim_end_matches(',').trim_matches('"').to_string();
                        let modpath: Vec<String> = modstack.iter().map(|m| m.0.clone()).collect();
                        if let Some(it) = items.iter_mut().find(|it| it.kind == "enum" && it.name == *en && it.modpath == modpath) {
                            it.str_names.entry(v.to_string()).or_insert(s);
                        }
                    }
                }
            }
        }
        for c in line.chars() {
            match c {
                '{' => depth += 1,
                '}' => {
                    depth -= 1;
                    if let Some((_, d)) = cur {
                        if depth == d {
                            cur = None;
                            pending_attr = None;
                        }
                    }
                    if let Some((_, d)) = modstack.last() {
                        if depth == *d {
                            modstack.pop();
                        }
                    }
                    if let Some((_, d)) = &in_str_name_impl {
                        if depth == *d {
                            in_str_name_impl = None;
                        }
                    }
                }
                _ => {}
            }
        }
    }
    items
}

fn proto_name(items: &[Item], it: &Item) -> String {
    // module path -> enclosing type names
    let mut parts: Vec<String> = vec![];
    let mut scope: Vec<String> = vec![];
    for m in &it.modpath {
        let parent = items.iter().find(|p| p.modpath == scope && snake(&p.name) == *m).map(|p| p.name.clone()).unwrap_or_else(|| m.clone());
        parts.push(parent);
        scope.push(m.clone());
    }
    parts.push(it.name.clone());
    format!("ommx.v1.{}", parts.join("."))
}

fn rust_path(it: &Item) -> String {
    let mut p = String::from("::ommx::v1::");
    for m in &it.modpath {
        p.push_str(m);
        p.push_str("::");
    }
    p.push_str(&it.name);
    p
}

fn main() {
    println!("cargo:rustc-link-arg-bins=-rdynamic");
    println!("cargo:rerun-if-changed=build.rs");
    // the repository under test: /repo, unless the wrapper was told otherwise (background runs on a snapshot)
    let repo = std::env::var("VERIF_REPO").ok().filter(|s| !s.is_empty()).unwrap_or_else(|| "/repo".to_string());
    println!("cargo:rerun-if-env-changed=VERIF_REPO");
    println!("cargo:rustc-env=VERIF_REPO_ROOT={}", repo);
    let bindings = format!("{}/rust/ommx/src/ommx.v1.rs", repo);
    println!("cargo:rerun-if-changed={}", bindings);
    let src = std::fs::read_to_string(&bindings).expect("read the checked-in prost bindings");
    let items = parse(&src);
    let mut out = String::new();
    out.push_str("// @generated by /verif/sim/build.rs from rust/ommx/src/ommx.v1.rs\n");
    out.push_str("pub struct RustField { pub name: &'static str, pub attr: &'static str }\n");
    out.push_str("pub struct RustItem { pub proto_name: &'static str, pub rust_path: &'static str, pub kind: &'static str, pub fields: &'static [RustField], pub values: &'static [(&'static str, i64, &'static str)] }\n");
    out.push_str("pub static RUST_ITEMS: &[RustItem] = &[\n");
    for it in &items {
        let _ = write!(out, "    RustItem {{ proto_name: {:?}, rust_path: {:?}, kind: {:?}, fields: &[", proto_name(&items, it), rust_path(it), it.kind);
        for f in &it.fields {
            let _ = write!(out, "RustField {{ name: {:?}, attr: {:?} }}, ", f.name, f.attr);
        }
        out.push_str("], values: &[");
        for (v, n) in &it.values {
            let _ = write!(out, "({:?}, {}, {:?}), ", v, n, it.str_names.get(v).cloned().unwrap_or_default());
        }
        out.push_str("] },\n");
    }
    out.push_str("];\n\n");
    out.push_str("/// decode with the prost bindings from a (possibly fragmented) buffer and encode again\n");
    out.push_str("pub fn reencode(proto_name: &str, buf: &mut dyn ::bytes::Buf) -> Option<Result<Vec<u8>, String>> {\n    use ::prost::Message;\n    match proto_name {\n");
    for it in items.iter().filter(|i| i.kind == "message") {
        let _ = writeln!(out, "        {:?} => Some(<{}>::decode(buf).map(|m| m.encode_to_vec()).map_err(|e| e.to_string())),", proto_name(&items, it), rust_path(it));
    }
    out.push_str("        _ => None,\n    }\n}\n\n");
    out.push_str("/// decode(encode(decode(bytes))) == decode(bytes) with the prost bindings' own PartialEq\n");
    out.push_str("pub fn self_roundtrip(proto_name: &str, bytes: &[u8]) -> Option<Result<bool, String>> {\n    use ::prost::Message;\n    match proto_name {\n");
    for it in items.iter().filter(|i| i.kind == "message") {
        let p = rust_path(it);
        let _ = writeln!(
            out,
            "        {:?} => Some((|| {{ let m = <{p}>::decode(bytes).map_err(|e| e.to_string())?; let b = m.encode_to_vec(); let m2 = <{p}>::decode(&b[..]).map_err(|e| e.to_string())?; Ok(m == m2) }})()),",
            proto_name(&items, it)
        );
    }
    out.push_str("        _ => None,\n    }\n}\n");
    let dest = std::path::Path::new(&std::env::var("OUT_DIR").unwrap()).join("registry.rs");
    std::fs::write(dest, out).expect("write registry.rs");
}
