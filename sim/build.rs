fn main() {
    // export the interposed libc symbols of the harness binary in its dynamic symbol table so that
    // dlsym(RTLD_DEFAULT, "getrandom") (Rust std's weak lookup) finds them as well
    println!("cargo:rustc-link-arg-bins=-rdynamic");
    println!("cargo:rerun-if-changed=build.rs");
}
