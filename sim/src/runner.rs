//! Seeded search over runs: generate a case from the run seed, execute it on a fresh simulation thread under
//! the simulated OS, judge it, aggregate reach counters, shrink and persist violations, write evidence.

use crate::rng::{mix, str_id, Rng};
use crate::simos::{self, Chunk, Fault, IoSched, SimCtx};
use serde::{de::DeserializeOwned, Serialize};
use serde_json::{json, Value};
use std::collections::{BTreeMap, HashSet};
use std::panic::{catch_unwind, AssertUnwindSafe};
use std::sync::atomic::{AtomicBool, AtomicU64, Ordering};
use std::sync::Mutex;

pub const HARNESS_VERSION: &str = "ommx-dst 1";

#[derive(Clone, Copy, PartialEq, Eq, Debug)]
pub enum Tier {
    Quick,
    Thorough,
}
impl Tier {
    pub fn name(self) -> &'static str {
        match self {
            Tier::Quick => "quick",
            Tier::Thorough => "thorough",
        }
    }
}

#[derive(Clone, Debug, Serialize, serde::Deserialize)]
pub struct Violation {
    /// stable identifier of the violated invariant and API (what known-findings match on)
    pub class: String,
    pub detail: String,
}

pub struct SimParams {
    pub faults: Vec<Fault>,
    pub chunk_r: Chunk,
    pub chunk_w: Chunk,
    pub hash_seed: u64,
    pub clock_s: i64,
}
impl Default for SimParams {
    fn default() -> Self {
        SimParams { faults: vec![], chunk_r: Chunk::Whole, chunk_w: Chunk::Whole, hash_seed: 1, clock_s: 1_700_000_000 }
    }
}

/// What `exec` sees: the sim disk, the counters, the violation list, helpers to drive the simulated OS.
pub struct Exec {
    pub disk: String,
    pub counters: BTreeMap<String, u64>,
    pub violations: Vec<Violation>,
    pub nontrivial: bool,
    pub notes: Vec<String>,
}

impl Exec {
    pub fn path(&self, name: &str) -> std::path::PathBuf {
        std::path::Path::new(&self.disk).join(name)
    }
    pub fn count(&mut self, key: &str) {
        self.add(key, 1);
    }
    pub fn add(&mut self, key: &str, n: u64) {
        if let Some(v) = self.counters.get_mut(key) {
            *v += n;
        } else {
            self.counters.insert(key.to_string(), n);
        }
    }
    pub fn violate(&mut self, class: &str, detail: String) {
        self.violations.push(Violation { class: class.to_string(), detail });
    }
    pub fn begin_op(&mut self, op: u32) {
        simos::with_ctx(|c| c.io.begin_op(op));
    }
    /// Runs `f` with fault injection switched off (an auxiliary call that is not the subject of the run).
    pub fn quietly<T>(&mut self, f: impl FnOnce(&mut Exec) -> T) -> T {
        // nests: inside a sibling case (prelude), which is quiet as a whole, the previous state must come back
        let was = simos::with_ctx(|c| std::mem::replace(&mut c.io.quiet, true)).unwrap_or(false);
        let r = f(self);
        simos::with_ctx(|c| c.io.quiet = was);
        r
    }
    /// Runs `f` - another case of the same property - ahead of the case proper, on the same thread and in the same
    /// process: no fault is injected, nothing it reports is kept, and the simulated disk is wiped afterwards. What the
    /// code under test remembers from it (thread-local scratch space, process-wide caches, counters) is still
    /// there when the case proper runs, which must not notice.
    pub fn prelude(&mut self, f: impl FnOnce(&mut Exec)) {
        simos::with_ctx(|c| c.io.quiet = true);
        let mut scratch = Exec { disk: self.disk.clone(), counters: BTreeMap::new(), violations: vec![], nontrivial: false, notes: vec![] };
        let r = catch_unwind(AssertUnwindSafe(|| f(&mut scratch)));
        simos::with_ctx(|c| {
            c.io.quiet = false;
            c.io.begin_op(0);
        });
        clean_dir(&self.disk);
        // chrono re-reads TZ once its cached zone is a (simulated) second old - or seems to lie in the future: a zone
        // the sibling switched to for its read-back must not outlive it. The step is one that the case's own clock
        // jumps (a few of +-1 s, +-1 h, 13.5 h, a year) cannot cancel to within a second.
        self.jump_clock(1000);
        self.count("probe.sibling_case_first");
        if let Err(p) = r {
            std::panic::resume_unwind(p);
        }
    }
    pub fn api(&mut self, name: &str, outcome: &str) {
        // error texts may quote paths on the sim disk, which contain the process id and the worker number
        let scrubbed = outcome.replace(&self.disk, "<disk>");
        simos::with_ctx(|c| c.io.api(name, &scrubbed));
    }
    pub fn jump_clock(&mut self, s: i64) {
        simos::with_ctx(|c| c.jump_clock(s));
    }
    pub fn hard_fired(&self, op: u32) -> bool {
        simos::with_ctx(|c| c.io.hard_fired(op)).unwrap_or(false)
    }
    pub fn eintr_fired(&self, op: u32) -> bool {
        simos::with_ctx(|c| c.io.eintr_fired(op)).unwrap_or(false)
    }
    pub fn transient_fired(&self, op: u32) -> bool {
        simos::with_ctx(|c| c.io.transient_fired(op)).unwrap_or(false)
    }
    pub fn bytes_so_far(&self, role: &str, dir: simos::Dir) -> u64 {
        simos::with_ctx(|c| c.io.bytes_so_far(role, dir)).unwrap_or(0)
    }
    /// Run code under test; a panic inside it is returned as Err(message), never propagated.
    pub fn sut<T>(&mut self, f: impl FnOnce() -> T) -> Result<T, String> {
        match catch_unwind(AssertUnwindSafe(f)) {
            Ok(v) => Ok(v),
            Err(p) => {
                let from_hook = simos::with_ctx(|c| c.panic_msg.take()).flatten();
                let msg = from_hook.unwrap_or_else(|| {
                    if let Some(s) = p.downcast_ref::<&str>() {
                        s.to_string()
                    } else if let Some(s) = p.downcast_ref::<String>() {
                        s.clone()
                    } else {
                        "panic".to_string()
                    }
                });
                Err(msg)
            }
        }
    }
}

pub trait Prop: Sync + Send + Copy + 'static {
    type Case: Serialize + DeserializeOwned + Clone + Send + Sync + 'static;
    fn id(&self) -> &'static str;
    fn level(&self) -> &'static str {
        "exploration"
    }
    fn runs(&self, tier: Tier) -> u64;
    fn gen(&self, rng: &mut Rng, tier: Tier, idx: u64) -> Self::Case;
    /// Cases enumerated rather than sampled (exhaustive sub-spaces): groups of (count, group seed); the k-th
    /// case of a group is produced on demand by `enum_case`.
    fn enum_plan(&self, _tier: Tier, _seed: u64) -> Vec<(u64, u64)> {
        Vec::new()
    }
    fn enum_case(&self, _group_seed: u64, _k: u64) -> Self::Case {
        unreachable!()
    }
    fn sim_params(&self, case: &Self::Case) -> SimParams;
    fn exec(&self, case: &Self::Case, x: &mut Exec);
    fn shrink(&self, case: &Self::Case) -> Vec<Self::Case>;
    fn rule(&self) -> String;
    fn assumptions(&self) -> Vec<String>;
    fn real_components(&self) -> Vec<&'static str>;
    fn stub_components(&self) -> Vec<&'static str>;
    /// one-time preparation on the main thread (loading schemas, ...)
    fn prepare(&self) {}
    /// run the batch in single-threaded worker *processes* instead of worker threads (needed when a dependency
    /// keeps process-global pools whose state depends on thread contention)
    fn process_isolated(&self) -> bool {
        false
    }
    /// blind spots computed from the aggregated counters (dynamic coverage requirements)
    fn post_check(&self, _counters: &BTreeMap<String, u64>, _tier: Tier) -> Vec<String> {
        Vec::new()
    }
    /// counters that must be non-zero at the end of a thorough run (blind-spot detection)
    fn required_probes(&self, _tier: Tier) -> Vec<&'static str> {
        Vec::new()
    }
    /// a compact, human-readable rendering of a case for the evidence file
    /// Another case of the property to execute ahead of `case` in the same run (see Exec::prelude); a pure function
    /// of `case`.
    fn sibling(&self, _case: &Self::Case) -> Option<Self::Case> {
        None
    }
    fn sample(&self, case: &Self::Case) -> Value {
        serde_json::to_value(case).unwrap_or(Value::Null)
    }
}

pub struct RunOut {
    pub violations: Vec<Violation>,
    pub log_hash: u64,
    pub counters: BTreeMap<String, u64>,
    pub nontrivial: bool,
    pub harness_panic: Option<String>,
    pub events: Vec<String>,
    pub api_log: Vec<String>,
    pub sim_clock_s: u64,
}

pub static HUNG: AtomicU64 = AtomicU64::new(0);
pub static ABORTED: AtomicU64 = AtomicU64::new(0);

pub fn install_panic_hook() {
    let default = std::panic::take_hook();
    std::panic::set_hook(Box::new(move |info| {
        if simos::on_sim_thread() {
            let msg = if let Some(s) = info.payload().downcast_ref::<&str>() {
                s.to_string()
            } else if let Some(s) = info.payload().downcast_ref::<String>() {
                s.clone()
            } else {
                "panic".to_string()
            };
            let loc = info.location().map(|l| format!(" at {}:{}", l.file(), l.line())).unwrap_or_default();
            simos::with_ctx(|c| c.panic_msg = Some(format!("{}{}", msg, loc)));
        } else {
            default(info);
        }
    }));
}

fn clean_dir(dir: &str) {
    if let Ok(rd) = std::fs::read_dir(dir) {
        for e in rd.flatten() {
            let p = e.path();
            if p.is_dir() {
                let _ = std::fs::remove_dir_all(&p);
            } else {
                let _ = std::fs::remove_file(&p);
            }
        }
    }
}

/// Execute one case on a fresh thread under a fresh simulated OS.
/// Wall-clock budget of one run (normal runs take well under a millisecond): a run that does not finish is a
/// reported "no progress" violation, not a stuck check.
pub const WATCHDOG_SECS: u64 = 10;

pub fn run_case<P: Prop>(prop: &P, case: &P::Case, disk: &str, want_events: bool) -> RunOut {
    clean_dir(disk);
    let sp = prop.sim_params(case);
    let mut io = IoSched::new(sp.faults, sp.chunk_r, sp.chunk_w);
    // the first record of every event log is the digest of the explicit case (workload + schedule)
    {
        let mut h = crate::rng::Fnv::new();
        h.bytes(serde_json::to_string(case).unwrap_or_default().as_bytes());
        io.op = u32::MAX;
        io.api("case", &format!("{:016x}", h.0));
        io.op = 0;
    }
    let mut ctx = Box::new(SimCtx::new(io, sp.hash_seed, sp.clock_s, disk));
    let mut x = Exec { disk: disk.to_string(), counters: BTreeMap::new(), violations: vec![], nontrivial: false, notes: vec![] };
    let (tx, rx) = std::sync::mpsc::channel::<(Exec, Box<SimCtx>, Option<String>)>();
    let prop_c = *prop;
    let case_c = case.clone();
    let aborted = std::sync::Arc::new(AtomicBool::new(false));
    let aborted_c = aborted.clone();
    let h = std::thread::Builder::new()
        .stack_size(4 << 20)
        .spawn(move || {
            simos::set_abort_flag(std::sync::Arc::as_ptr(&aborted_c));
            simos::install(&mut *ctx as *mut SimCtx);
            let r = catch_unwind(AssertUnwindSafe(|| {
                if let Some(s) = prop_c.sibling(&case_c) {
                    x.prelude(|xq| prop_c.exec(&s, xq));
                }
                prop_c.exec(&case_c, &mut x)
            }));
            let msg = if r.is_err() { simos::with_ctx(|c| c.panic_msg.take()).flatten().or(Some("panic".into())) } else { None };
            simos::uninstall();
            let _ = tx.send((x, ctx, msg));
        })
        .expect("spawn simulation thread");
    // normal runs answer within a millisecond; the slices only matter for a run that aborted or hangs
    let mut waited_ms = 0u64;
    let res = loop {
        match rx.recv_timeout(std::time::Duration::from_millis(20)) {
            Err(std::sync::mpsc::RecvTimeoutError::Timeout) => {
                waited_ms += 20;
                if aborted.load(Ordering::SeqCst) {
                    // the simulation thread is parked in the SIGABRT handler for good (simos::on_sigabrt)
                    return RunOut {
                        violations: vec![Violation {
                            class: format!("{}:abort", prop.id()),
                            detail: format!("the code under test aborted the process (a failed allocation - single requests above {} MiB fail in the simulation -, a panic while panicking, or abort())", simos::ALLOC_CAP >> 20),
                        }],
                        log_hash: 0,
                        counters: BTreeMap::new(),
                        nontrivial: true,
                        harness_panic: None,
                        events: vec![],
                        api_log: vec![],
                        sim_clock_s: 0,
                    };
                }
                if waited_ms >= WATCHDOG_SECS * 1000 {
                    break Err(std::sync::mpsc::RecvTimeoutError::Timeout);
                }
            }
            other => break other,
        }
    };
    let (mut x, ctx, harness_panic) = match res {
        Ok(t) => {
            let _ = h.join();
            t
        }
        Err(std::sync::mpsc::RecvTimeoutError::Timeout) => {
            // the simulation thread is left behind (it cannot be killed); the process exits at the end of the check
            HUNG.fetch_add(1, Ordering::Relaxed);
            return RunOut {
                violations: vec![Violation { class: format!("{}:no-progress:watchdog", prop.id()), detail: format!("the run did not finish within {} s of wall time (normal: < 1 ms): some operation does not terminate", WATCHDOG_SECS) }],
                log_hash: 0,
                counters: BTreeMap::new(),
                nontrivial: true,
                harness_panic: None,
                events: vec![],
                api_log: vec![],
                sim_clock_s: 0,
            };
        }
        Err(_) => {
            let _ = h.join();
            return RunOut { violations: vec![], log_hash: 0, counters: BTreeMap::new(), nontrivial: false, harness_panic: Some("simulation thread died".into()), events: vec![], api_log: vec![], sim_clock_s: 0 };
        }
    };
    let mut counters = std::mem::take(&mut x.counters);
    let mut add = |k: String, n: u64| {
        if n > 0 {
            *counters.entry(k).or_insert(0) += n;
        }
    };
    add("sys.open".into(), ctx.sys.open);
    add("sys.close".into(), ctx.sys.close);
    add("sys.read".into(), ctx.sys.read);
    add("sys.write".into(), ctx.sys.write);
    add("sys.readv".into(), ctx.sys.readv);
    add("sys.writev".into(), ctx.sys.writev);
    add("sys.getrandom".into(), ctx.sys.getrandom);
    add("sys.clock_gettime".into(), ctx.sys.clock);
    add("sys.fsync".into(), ctx.sys.fsync);
    for (kind, _op, _pos) in &ctx.io.fired_at {
        add(format!("fault.{}", kind), 1);
    }
    if ctx.io.overrun {
        x.violations.push(Violation { class: format!("{}:no-progress:syscall-cap", prop.id()), detail: "more than the step cap of simulated system calls in one run".into() });
    }
    if ctx.open_fds() > 0 {
        add("probe.fd_left_open_at_end".into(), ctx.open_fds() as u64);
    }
    let any_fired = ctx.io.any_fired();
    let out = RunOut {
        violations: std::mem::take(&mut x.violations),
        log_hash: ctx.io.log_hash(),
        counters,
        nontrivial: x.nontrivial || any_fired,
        harness_panic,
        events: if want_events { ctx.io.render(400) } else { vec![] },
        api_log: if want_events { ctx.io.api_log.clone() } else { vec![] },
        sim_clock_s: ctx.clock_advanced_s,
    };
    clean_dir(disk);
    out
}

pub struct Options {
    pub tier: Tier,
    pub seed: u64,
    pub runs: Option<u64>,
    pub workers: usize,
    pub hashes_out: Option<String>,
    pub no_evidence: bool,
    /// print the case and the full event log of one run index and exit
    pub dump_run: Option<u64>,
    /// worker process k of n (process-isolated properties): handle run indices = k mod n, write the partial
    /// aggregate to the given file
    pub child: Option<(u64, u64, String)>,
}

pub fn scratch_root() -> String {
    let base = if std::path::Path::new("/dev/shm").is_dir() { "/dev/shm".to_string() } else { std::env::temp_dir().to_string_lossy().into_owned() };
    format!("{}/ommx-dst-{}", base, std::process::id())
}

/// Simulated disks of harness processes that no longer exist (killed, or ended by an abort outside a
/// simulation thread) are removed; directories of live processes are left alone.
fn sweep_stale_scratch(own_root: &str) {
    let Some(parent) = std::path::Path::new(own_root).parent() else { return };
    let Ok(rd) = std::fs::read_dir(parent) else { return };
    for e in rd.flatten() {
        let name = e.file_name().to_string_lossy().into_owned();
        if let Some(pid) = name.strip_prefix("ommx-dst-").and_then(|p| p.parse::<u32>().ok()) {
            if pid != std::process::id() && !std::path::Path::new(&format!("/proc/{pid}")).exists() {
                let _ = std::fs::remove_dir_all(e.path());
            }
        }
    }
}

pub fn verif_dir() -> std::path::PathBuf {
    // the binary lives in /verif/.build/release/check
    let exe = std::env::current_exe().unwrap_or_default();
    let mut p = exe.clone();
    for _ in 0..3 {
        p.pop();
    }
    if p.join("properties.jsonl").exists() {
        p
    } else {
        std::path::PathBuf::from("/verif")
    }
}

#[derive(serde::Deserialize, Default)]
struct KnownFile {
    #[serde(default)]
    known: Vec<KnownEntry>,
}
#[derive(serde::Deserialize, Clone)]
struct KnownEntry {
    property: String,
    class: String,
    what: String,
}

fn load_known(id: &str) -> Vec<KnownEntry> {
    let p = verif_dir().join("known_findings.json");
    let Ok(s) = std::fs::read_to_string(&p) else { return vec![] };
    match serde_json::from_str::<KnownFile>(&s) {
        Ok(k) => k.known.into_iter().filter(|e| e.property == id).collect(),
        Err(e) => {
            eprintln!("HARNESS-ERROR: known_findings.json does not parse: {e}");
            std::process::exit(2);
        }
    }
}

#[derive(Serialize, serde::Deserialize)]
pub struct ReplayFile {
    pub property: String,
    pub harness: String,
    pub seed: u64,
    pub run_index: u64,
    pub violation: Violation,
    pub log_hash: String,
    pub shrink_steps: u64,
    pub case: Value,
    pub events: Vec<String>,
    pub api_log: Vec<String>,
}

fn run_seed(seed: u64, id: &str, idx: u64) -> u64 {
    mix(&[seed, str_id(id), idx])
}

#[derive(Serialize, serde::Deserialize)]
struct WorkerAgg {
    runs: u64,
    counters: BTreeMap<String, u64>,
    hashes: HashSet<u64>,
    all_hashes: Vec<(u64, u64)>,
    violations: Vec<(u64, Violation)>,
    samples: Vec<(u64, Value)>,
    harness_errors: Vec<(u64, String)>,
    sim_clock_s: u64,
    trivial: u64,
}

/// Returns the process exit code.
pub fn run_check<P: Prop>(prop: &P, opt: &Options) -> i32 {
    let t0 = simos::mono_secs();
    let id = prop.id();
    prop.prepare();
    println!("VERIF_SEED={} property={} tier={} harness=\"{}\"", opt.seed, id, opt.tier.name(), HARNESS_VERSION);
    let root = scratch_root();
    sweep_stale_scratch(&root);
    let _ = std::fs::create_dir_all(&root);
    let plan = prop.enum_plan(opt.tier, opt.seed);
    let mut prefix: Vec<u64> = Vec::with_capacity(plan.len() + 1);
    prefix.push(0);
    for (n, _) in &plan {
        prefix.push(prefix.last().unwrap() + n);
    }
    let n_enum = if opt.runs.is_some() { 0 } else { *prefix.last().unwrap() };
    let n_sampled = opt.runs.unwrap_or_else(|| prop.runs(opt.tier));
    let total = n_sampled + n_enum;
    let next = AtomicU64::new(0);
    let stop = AtomicBool::new(false);
    let aggs: Mutex<Vec<WorkerAgg>> = Mutex::new(Vec::new());
    let want_all_hashes = opt.hashes_out.is_some();
    let case_for = |idx: u64| -> P::Case {
        if idx < n_enum {
            let g = prefix.partition_point(|p| *p <= idx) - 1;
            prop.enum_case(plan[g].1, idx - prefix[g])
        } else {
            let mut rng = Rng::new(run_seed(opt.seed, id, idx - n_enum));
            prop.gen(&mut rng, opt.tier, idx - n_enum)
        }
    };
    if let Some(idx) = opt.dump_run {
        let disk = format!("{}/dump", root);
        let _ = std::fs::create_dir_all(&disk);
        let case = case_for(idx);
        println!("{}", serde_json::to_string_pretty(&case).unwrap_or_default());
        let out = run_case(prop, &case, &disk, true);
        for l in &out.api_log {
            println!("  {}", l);
        }
        for l in &out.events {
            println!("  {}", l);
        }
        println!("log_hash={:016x} violations={:?}", out.log_hash, out.violations);
        let _ = std::fs::remove_dir_all(&root);
        return 0;
    }
    let worker_loop = |w: usize, first: u64, step: u64| -> WorkerAgg {
        let disk = format!("{}/w{}", root, w);
        let _ = std::fs::create_dir_all(&disk);
        let mut a = WorkerAgg { runs: 0, counters: BTreeMap::new(), hashes: HashSet::new(), all_hashes: vec![], violations: vec![], samples: vec![], harness_errors: vec![], sim_clock_s: 0, trivial: 0 };
        let mut own = first;
        loop {
            if stop.load(Ordering::Relaxed) {
                break;
            }
            // threads share a counter; worker processes take every step-th index
            let idx = if step == 0 {
                next.fetch_add(1, Ordering::Relaxed)
            } else {
                let i = own;
                own += step;
                i
            };
            if idx >= total {
                break;
            }
            let case = case_for(idx);
            let out = run_case(prop, &case, &disk, false);
            a.runs += 1;
            for (k, v) in out.counters {
                *a.counters.entry(k).or_insert(0) += v;
            }
            a.sim_clock_s += out.sim_clock_s;
            if out.nontrivial {
                a.hashes.insert(out.log_hash);
            } else {
                a.trivial += 1;
            }
            if want_all_hashes {
                a.all_hashes.push((idx, out.log_hash));
            }
            if let Some(m) = out.harness_panic {
                a.harness_errors.push((idx, m));
                stop.store(true, Ordering::Relaxed);
            }
            for v in out.violations {
                if v.class.ends_with(":no-progress:watchdog") {
                    // a run that does not terminate leaves a spinning thread behind: report and stop the batch
                    stop.store(true, Ordering::Relaxed);
                }
                if v.class.ends_with(":abort") && ABORTED.fetch_add(1, Ordering::Relaxed) >= 64 {
                    // every aborted run leaves a parked thread behind: enough of them have been seen
                    stop.store(true, Ordering::Relaxed);
                }
                if a.violations.len() < 64 {
                    a.violations.push((idx, v));
                }
            }
            if a.samples.len() < 3 && (idx % 7 == 3 || idx < 2) {
                a.samples.push((idx, prop.sample(&case)));
            }
        }
        let _ = std::fs::remove_dir_all(&disk);
        a
    };
    if let Some((k, n, path)) = &opt.child {
        let a = worker_loop(*k as usize, *k, *n);
        let ok = std::fs::write(path, serde_json::to_string(&a).unwrap_or_default()).is_ok();
        let _ = std::fs::remove_dir_all(&root);
        return if ok { 0 } else { 2 };
    }
    if prop.process_isolated() && opt.workers > 1 {
        let exe = std::env::current_exe().expect("current_exe");
        let mut kids = vec![];
        for k in 0..opt.workers {
            let path = format!("{}/child-{}.json", root, k);
            let mut c = std::process::Command::new(&exe);
            c.arg(id).arg("--tier").arg(opt.tier.name()).arg("--child").arg(k.to_string()).arg(opt.workers.to_string()).arg(&path).env("VERIF_SEED", (opt.seed as i64).to_string());
            if let Some(r) = opt.runs {
                c.arg("--runs").arg(r.to_string());
            }
            if want_all_hashes {
                c.arg("--hashes-out").arg("/dev/null");
            }
            c.stdout(std::process::Stdio::null());
            kids.push((path, c.spawn().expect("spawn worker process")));
        }
        for (path, mut ch) in kids {
            let st = ch.wait().ok().and_then(|s| s.code());
            match std::fs::read_to_string(&path).ok().and_then(|s| serde_json::from_str::<WorkerAgg>(&s).ok()) {
                Some(a) if st == Some(0) => aggs.lock().unwrap().push(a),
                _ => {
                    eprintln!("HARNESS-ERROR: worker process for {} failed (exit {:?})", id, st);
                    let _ = std::fs::remove_dir_all(&root);
                    return 2;
                }
            }
        }
    } else {
        std::thread::scope(|s| {
            for w in 0..opt.workers {
                let (aggs, worker_loop) = (&aggs, &worker_loop);
                s.spawn(move || {
                    let a = worker_loop(w, 0, 0);
                    aggs.lock().unwrap().push(a);
                });
            }
        });
    }
    // merge
    let aggs = aggs.into_inner().unwrap();
    let mut runs = 0;
    let mut counters: BTreeMap<String, u64> = BTreeMap::new();
    let mut hashes: HashSet<u64> = HashSet::new();
    let mut violations: Vec<(u64, Violation)> = vec![];
    let mut samples: Vec<(u64, Value)> = vec![];
    let mut harness_errors = vec![];
    let mut all_hashes = vec![];
    let mut sim_clock_s = 0;
    let mut trivial = 0;
    for a in aggs {
        runs += a.runs;
        for (k, v) in a.counters {
            *counters.entry(k).or_insert(0) += v;
        }
        hashes.extend(a.hashes);
        violations.extend(a.violations);
        samples.extend(a.samples);
        harness_errors.extend(a.harness_errors);
        all_hashes.extend(a.all_hashes);
        sim_clock_s += a.sim_clock_s;
        trivial += a.trivial;
    }
    samples.sort_by_key(|s| s.0);
    samples.truncate(3);
    violations.sort_by(|a, b| a.0.cmp(&b.0).then(a.1.class.cmp(&b.1.class)));
    if let Some(path) = &opt.hashes_out {
        all_hashes.sort();
        let mut s = String::new();
        for (i, h) in &all_hashes {
            s.push_str(&format!("{} {:016x}\n", i, h));
        }
        let _ = std::fs::write(path, s);
    }
    if !harness_errors.is_empty() {
        harness_errors.sort();
        let (idx, m) = &harness_errors[0];
        eprintln!("HARNESS-ERROR: property={} run_index={} seed={}: {}", id, idx, opt.seed, m);
        let _ = std::fs::remove_dir_all(&root);
        return 2;
    }

    // in-process determinism sample: re-execute a prefix of the runs and compare event-log hashes
    let det_n = if HUNG.load(Ordering::Relaxed) > 0 {
        0
    } else {
        match opt.tier {
            Tier::Quick => 50.min(total),
            Tier::Thorough => 200.min(total),
        }
    };
    let mut det_mismatch = 0;
    {
        let disk = format!("{}/det", root);
        let _ = std::fs::create_dir_all(&disk);
        for k in 0..det_n {
            let idx = (k * 7919) % total.max(1);
            let case = case_for(idx);
            let a = run_case(prop, &case, &disk, false);
            let b = run_case(prop, &case, &disk, false);
            if a.log_hash != b.log_hash || a.violations.len() != b.violations.len() {
                det_mismatch += 1;
                eprintln!("HARNESS-ERROR: non-deterministic run: property={} run_index={} {:016x} != {:016x}", id, idx, a.log_hash, b.log_hash);
            }
        }
        let _ = std::fs::remove_dir_all(&disk);
    }

    // violations: known findings vs new ones
    let known = load_known(id);
    let mut known_hit: BTreeMap<String, (String, u64)> = BTreeMap::new();
    let mut fresh: Vec<(u64, Violation)> = vec![];
    for (idx, v) in violations {
        if let Some(k) = known.iter().find(|k| k.class == v.class) {
            known_hit.entry(k.class.clone()).or_insert((k.what.clone(), 0)).1 += 1;
        } else {
            fresh.push((idx, v));
        }
    }
    for (class, (what, n)) in &known_hit {
        println!("KNOWN-FINDING: property={} {} [class={} hits>={}]", id, what, class, n);
    }
    let mut exit = 0;
    let mut replay_paths = vec![];
    if !fresh.is_empty() {
        // one report per distinct class, lowest run index first; a class whose first occurrence cannot be confirmed
        // (it depended on what the process had executed before) gets two more tries at later occurrences
        let mut seen: HashSet<String> = HashSet::new();
        let mut tries: BTreeMap<String, u32> = BTreeMap::new();
        let mut attempts = 0;
        let disk = format!("{}/shrink", root);
        let _ = std::fs::create_dir_all(&disk);
        for (idx, v) in fresh.iter() {
            if seen.contains(&v.class) || seen.len() >= 4 || attempts >= 16 {
                continue;
            }
            let t = tries.entry(v.class.clone()).or_insert(0);
            if *t >= 3 {
                continue;
            }
            *t += 1;
            attempts += 1;
            let case = case_for(*idx);
            let (small, steps) = shrink_case(prop, case, &v.class, &disk);
            let out = run_case(prop, &small, &disk, true);
            let viol = out.violations.iter().find(|x| x.class == v.class).cloned();
            let Some(viol) = viol else {
                if v.class.ends_with(":no-progress:watchdog") {
                    // the watchdog is the one wall-clock measurement of the harness: a run that completes when the
                    // same case is executed again did not hang, the machine stalled (observed when the sandbox was
                    // being copied while three batches shared its cores). A hang of the code is a function of the
                    // case and reproduces.
                    eprintln!("NOTE: wall-clock watchdog fired at run_index={} but the same case completes when executed again: machine stall, not a report", idx);
                    continue;
                }
                eprintln!("HARNESS-ERROR: violation of class {} at run_index={} did not reproduce in-process", v.class, idx);
                if exit == 0 {
                    exit = 2;
                }
                continue;
            };
            let rf = ReplayFile {
                property: id.to_string(),
                harness: HARNESS_VERSION.to_string(),
                seed: opt.seed,
                run_index: *idx,
                violation: viol.clone(),
                log_hash: format!("{:016x}", out.log_hash),
                shrink_steps: steps,
                case: serde_json::to_value(&small).unwrap(),
                events: out.events,
                api_log: out.api_log,
            };
            let dir = verif_dir().join("replays");
            let _ = std::fs::create_dir_all(&dir);
            let path = dir.join(format!("{}-{}-{:08x}.json", id, opt.seed, (str_id(&viol.class) ^ out.log_hash) as u32));
            std::fs::write(&path, serde_json::to_string_pretty(&rf).unwrap()).expect("write replay file");
            // confirm in a fresh process
            let st = std::process::Command::new(std::env::current_exe().unwrap())
                .arg(id)
                .arg("--replay")
                .arg(&path)
                .arg("--quiet")
                .output();
            let confirmed = matches!(&st, Ok(o) if o.status.code() == Some(1));
            if !confirmed {
                eprintln!("HARNESS-ERROR: replay of {} in a fresh process did not reproduce the violation", path.display());
                if exit == 0 {
                    exit = 2;
                }
                continue;
            }
            seen.insert(v.class.clone());
            println!("violation: class={} run_index={} shrink_steps={} detail={}", viol.class, idx, steps, viol.detail);
            println!("VIOLATION property={} replay={}", id, path.display());
            replay_paths.push(path.display().to_string());
            // a violation confirmed by a replay in a fresh process outweighs reports that could not be confirmed
            exit = 1;
        }
        let _ = std::fs::remove_dir_all(&disk);
    }

    // blind spots
    let mut blind: Vec<String> = vec![];
    if opt.runs.is_none() {
        for p in prop.required_probes(opt.tier) {
            if counters.get(p).copied().unwrap_or(0) == 0 {
                blind.push(p.to_string());
            }
        }
        blind.extend(prop.post_check(&counters, opt.tier));
    }
    // runs that are not a function of their case: a harness error unless a violation was confirmed by a replay in a
    // fresh process anyway (then that is the more useful report)
    if det_mismatch > 0 && exit != 1 {
        exit = 2;
    }
    if !blind.is_empty() && exit == 0 {
        eprintln!("HARNESS-ERROR: blind spots (probes that never fired): {:?}", blind);
        exit = 2;
    }

    let wall = simos::mono_secs() - t0;
    if !opt.no_evidence {
        let faults: BTreeMap<&str, u64> = counters.iter().filter(|(k, _)| k.starts_with("fault.")).map(|(k, v)| (&k[6..], *v)).collect();
        let sys: BTreeMap<&str, u64> = counters.iter().filter(|(k, _)| k.starts_with("sys.")).map(|(k, v)| (&k[4..], *v)).collect();
        let probes: BTreeMap<&str, u64> = counters.iter().filter(|(k, _)| !k.starts_with("sys.") && !k.starts_with("fault.") && !k.starts_with("cov.")).map(|(k, v)| (k.as_str(), *v)).collect();
        let cov_fields = counters.keys().filter(|k| k.starts_with("cov.")).count();
        let ev = json!({
            "property_id": id,
            "tier": opt.tier.name(),
            "seed": opt.seed,
            "level": prop.level(),
            "coverage": {
                "evaluations": runs,
                "distinct_nontrivial": hashes.len(),
                "rule": prop.rule(),
                "samples": samples.iter().map(|(i, v)| json!({"run_index": i, "case": v})).collect::<Vec<_>>(),
                "exhaustive": false,
                "enumerated_cases": n_enum,
                "sampled_cases": n_sampled,
                "trivial_runs": trivial,
                "runs_per_hour": if wall > 0.0 { (runs as f64 / wall * 3600.0) as u64 } else { 0 },
                "seeds": format!("run seed = mix(VERIF_SEED={}, property, run index 0..{})", opt.seed, n_sampled),
                "simulated_syscalls": sys,
                "simulated_clock_seconds_advanced": sim_clock_s,
                "faults_fired": faults,
                "probes": probes,
                "wire_fields_populated": cov_fields,
                "blind_spots": blind,
                "determinism": {"reexecuted_runs": det_n, "mismatches": det_mismatch},
                "real_components": prop.real_components(),
                "stub_components": prop.stub_components(),
                "known_findings_hit": known_hit.iter().map(|(c, (w, n))| json!({"class": c, "what": w, "runs": n})).collect::<Vec<_>>(),
                "replays": replay_paths,
                "workers": opt.workers,
            },
            "assumptions": prop.assumptions(),
            "wall_s": (wall * 1000.0).round() / 1000.0,
            "violations": fresh.len(),
        });
        let dir = verif_dir().join("evidence");
        let _ = std::fs::create_dir_all(&dir);
        if let Err(e) = std::fs::write(dir.join(format!("{}.json", id)), serde_json::to_string_pretty(&ev).unwrap()) {
            eprintln!("HARNESS-ERROR: cannot write evidence: {e}");
            exit = 2;
        }
    }
    println!(
        "property={} runs={} distinct_nontrivial={} violations={} known_findings={} wall={:.1}s exit={}",
        id,
        runs,
        hashes.len(),
        fresh.len(),
        known_hit.len(),
        wall,
        exit
    );
    let _ = std::fs::remove_dir_all(&root);
    exit
}

/// Greedy shrinking: accept any candidate that still shows a violation of the same class.
pub fn shrink_case<P: Prop>(prop: &P, case: P::Case, class: &str, disk: &str) -> (P::Case, u64) {
    let mut cur = case;
    let mut steps = 0u64;
    let mut execs = 0u64;
    if class.ends_with(":no-progress:watchdog") {
        // every attempt may hang for the whole watchdog budget: report the case as generated
        return (cur, 0);
    }
    'outer: loop {
        let cands = prop.shrink(&cur);
        for c in cands {
            execs += 1;
            if execs > 3000 {
                break 'outer;
            }
            let out = run_case(prop, &c, disk, false);
            if out.harness_panic.is_none() && out.violations.iter().any(|v| v.class == class) {
                cur = c;
                steps += 1;
                continue 'outer;
            }
        }
        break;
    }
    (cur, steps)
}

pub fn replay<P: Prop>(prop: &P, path: &str, quiet: bool) -> i32 {
    let s = match std::fs::read_to_string(path) {
        Ok(s) => s,
        Err(e) => {
            eprintln!("HARNESS-ERROR: cannot read {path}: {e}");
            return 2;
        }
    };
    let rf: ReplayFile = match serde_json::from_str(&s) {
        Ok(r) => r,
        Err(e) => {
            eprintln!("HARNESS-ERROR: cannot parse {path}: {e}");
            return 2;
        }
    };
    let case: P::Case = match serde_json::from_value(rf.case.clone()) {
        Ok(c) => c,
        Err(e) => {
            eprintln!("HARNESS-ERROR: replay case does not match this harness: {e}");
            return 2;
        }
    };
    prop.prepare();
    let root = scratch_root();
    let disk = format!("{}/replay", root);
    let _ = std::fs::create_dir_all(&disk);
    let out = run_case(prop, &case, &disk, true);
    let _ = std::fs::remove_dir_all(&root);
    if let Some(m) = out.harness_panic {
        eprintln!("HARNESS-ERROR: {m}");
        return 2;
    }
    if !quiet {
        for l in &out.api_log {
            println!("  {}", l);
        }
        for l in &out.events {
            println!("  {}", l);
        }
        println!("log_hash={:016x} (recorded {})", out.log_hash, rf.log_hash);
    }
    let same = out.violations.iter().find(|v| v.class == rf.violation.class);
    match same {
        Some(v) => {
            let hash_ok = format!("{:016x}", out.log_hash) == rf.log_hash;
            println!("reproduced: class={} detail={} event-log-hash-identical={}", v.class, v.detail, hash_ok);
            println!("VIOLATION property={} replay={}", rf.property, path);
            1
        }
        None => {
            if let Some(v) = out.violations.first() {
                println!("different violation: class={} detail={}", v.class, v.detail);
                println!("VIOLATION property={} replay={}", rf.property, path);
                return 1;
            }
            println!("not reproduced: the recorded execution now satisfies the property");
            0
        }
    }
}

/// Structural helpers for shrinkers
pub fn remove_each<T: Clone>(v: &[T]) -> Vec<Vec<T>> {
    (0..v.len())
        .map(|i| {
            let mut w = v.to_vec();
            w.remove(i);
            w
        })
        .collect()
}
