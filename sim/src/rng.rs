//! The only source of randomness of the simulator: xoshiro256** seeded through splitmix64.
//! One integer (VERIF_SEED) -> run seed -> one stream per run; nothing else is ever consulted.

#[derive(Clone, Debug)]
pub struct Rng {
    s: [u64; 4],
}

pub fn splitmix(x: &mut u64) -> u64 {
    *x = x.wrapping_add(0x9E3779B97F4A7C15);
    let mut z = *x;
    z = (z ^ (z >> 30)).wrapping_mul(0xBF58476D1CE4E5B9);
    z = (z ^ (z >> 27)).wrapping_mul(0x94D049BB133111EB);
    z ^ (z >> 31)
}

/// Mix several integers into one seed (order sensitive).
pub fn mix(parts: &[u64]) -> u64 {
    let mut h: u64 = 0x243F6A8885A308D3;
    for p in parts {
        let mut x = h ^ p.wrapping_mul(0x9E3779B97F4A7C15);
        h = splitmix(&mut x) ^ h.rotate_left(23);
    }
    let mut x = h;
    splitmix(&mut x)
}

pub fn str_id(s: &str) -> u64 {
    let mut h: u64 = 0xcbf29ce484222325;
    for b in s.bytes() {
        h ^= b as u64;
        h = h.wrapping_mul(0x100000001b3);
    }
    h
}

impl Rng {
    pub fn new(seed: u64) -> Self {
        let mut x = seed;
        let s = [splitmix(&mut x), splitmix(&mut x), splitmix(&mut x), splitmix(&mut x)];
        Rng { s }
    }
    pub fn next(&mut self) -> u64 {
        let r = self.s[1].wrapping_mul(5).rotate_left(7).wrapping_mul(9);
        let t = self.s[1] << 17;
        self.s[2] ^= self.s[0];
        self.s[3] ^= self.s[1];
        self.s[1] ^= self.s[2];
        self.s[0] ^= self.s[3];
        self.s[2] ^= t;
        self.s[3] = self.s[3].rotate_left(45);
        r
    }
    /// uniform in 0..n (n>0)
    pub fn below(&mut self, n: u64) -> u64 {
        debug_assert!(n > 0);
        ((self.next() as u128 * n as u128) >> 64) as u64
    }
    pub fn usize(&mut self, n: usize) -> usize {
        self.below(n as u64) as usize
    }
    /// uniform in lo..=hi
    pub fn range(&mut self, lo: i64, hi: i64) -> i64 {
        lo + self.below((hi - lo + 1) as u64) as i64
    }
    /// true with probability num/den
    pub fn chance(&mut self, num: u64, den: u64) -> bool {
        self.below(den) < num
    }
    pub fn pick<'a, T>(&mut self, xs: &'a [T]) -> &'a T {
        &xs[self.usize(xs.len())]
    }
    pub fn shuffle<T>(&mut self, xs: &mut [T]) {
        for i in (1..xs.len()).rev() {
            let j = self.usize(i + 1);
            xs.swap(i, j);
        }
    }
    /// multiples of 1/2 in [-lim, lim] (dyadic, exactly representable), optionally excluding 0
    pub fn half(&mut self, lim: i64, nonzero: bool) -> f64 {
        loop {
            let k = self.range(-2 * lim, 2 * lim);
            if nonzero && k == 0 {
                continue;
            }
            return k as f64 / 2.0;
        }
    }
    pub fn fork(&mut self) -> Rng {
        Rng::new(self.next())
    }
}

/// FNV-1a, the identity of an execution (hash of its event log)
#[derive(Clone, Copy)]
pub struct Fnv(pub u64);
impl Fnv {
    pub fn new() -> Self {
        Fnv(0xcbf29ce484222325)
    }
    pub fn bytes(&mut self, b: &[u8]) {
        for x in b {
            self.0 ^= *x as u64;
            self.0 = self.0.wrapping_mul(0x100000001b3);
        }
    }
    pub fn u64(&mut self, v: u64) {
        self.bytes(&v.to_le_bytes());
    }
    pub fn str(&mut self, s: &str) {
        self.bytes(s.as_bytes());
        self.bytes(&[0xff]);
    }
}
