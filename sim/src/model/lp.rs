//! Reference model of linear problems: the normal form both the expected problem (from an abstract model)
//! and the observed problem (a loaded `v1::Instance`) are brought into before they are compared exactly.

use ommx::v1;
use serde::{Deserialize, Deserializer, Serialize, Serializer};
use std::collections::BTreeMap;

/// f64 that survives JSON (inf / -inf / NaN are written as strings)
#[derive(Clone, Copy, Debug, PartialEq)]
pub struct F(pub f64);
impl Serialize for F {
    fn serialize<S: Serializer>(&self, s: S) -> Result<S::Ok, S::Error> {
        if self.0.is_finite() && self.0 == self.0.trunc() && self.0.abs() < 1e15 {
            s.serialize_str(&format!("{:.1}", self.0))
        } else {
            s.serialize_str(&format!("{:?}", self.0))
        }
    }
}
impl<'de> Deserialize<'de> for F {
    fn deserialize<D: Deserializer<'de>>(d: D) -> Result<Self, D::Error> {
        let s = String::deserialize(d)?;
        s.parse::<f64>().map(F).map_err(serde::de::Error::custom)
    }
}

#[derive(Clone, Copy, Debug, PartialEq, Eq, Serialize, Deserialize)]
pub enum Kind {
    Cont,
    Int,
    Bin,
}
impl Kind {
    pub fn to_v1(self) -> i32 {
        match self {
            Kind::Cont => v1::decision_variable::Kind::Continuous as i32,
            Kind::Int => v1::decision_variable::Kind::Integer as i32,
            Kind::Bin => v1::decision_variable::Kind::Binary as i32,
        }
    }
}

/// Value domain of a variable: integrality and the effective interval.
#[derive(Clone, Copy, Debug, PartialEq)]
pub struct Domain {
    pub int: bool,
    pub lo: f64,
    pub hi: f64,
}

/// "an unspecified bound meaning unbounded, or [0,1] for binaries"; binaries are integers within [0,1];
/// integer endpoints are rounded inwards so that equal sets compare equal.
pub fn domain(kind: Kind, bound: Option<(f64, f64)>) -> Domain {
    let (mut lo, mut hi) = bound.unwrap_or(match kind {
        Kind::Bin => (0.0, 1.0),
        _ => (f64::NEG_INFINITY, f64::INFINITY),
    });
    if kind == Kind::Bin {
        lo = lo.max(0.0);
        hi = hi.min(1.0);
    }
    let int = kind != Kind::Cont;
    if int {
        lo = lo.ceil();
        hi = hi.floor();
    }
    Domain { int, lo, hi }
}

pub fn domain_of_v1(d: &v1::DecisionVariable) -> Result<Domain, String> {
    use v1::decision_variable::Kind as K;
    let kind = match K::try_from(d.kind) {
        Ok(K::Continuous) => Kind::Cont,
        Ok(K::Integer) => Kind::Int,
        Ok(K::Binary) => Kind::Bin,
        other => return Err(format!("variable {} has kind {:?}", d.id, other)),
    };
    Ok(domain(kind, d.bound.as_ref().map(|b| (b.lower, b.upper))))
}

#[derive(Clone, Debug, PartialEq, Default)]
pub struct NormLin {
    pub coefs: BTreeMap<String, f64>,
    pub constant: f64,
}
impl NormLin {
    pub fn add(&mut self, key: &str, c: f64) {
        let e = self.coefs.entry(key.to_string()).or_insert(0.0);
        *e += c;
    }
    pub fn prune(&mut self) {
        self.coefs.retain(|_, c| *c != 0.0);
        if self.constant == 0.0 {
            self.constant = 0.0; // -0.0 == 0.0
        }
    }
    pub fn neg(&self) -> NormLin {
        NormLin { coefs: self.coefs.iter().map(|(k, c)| (k.clone(), -*c)).collect(), constant: -self.constant }
    }
    pub fn same(&self, o: &NormLin) -> bool {
        self.constant == o.constant && self.coefs.len() == o.coefs.len() && self.coefs.iter().all(|(k, c)| o.coefs.get(k) == Some(c))
    }
    pub fn show(&self) -> String {
        let mut s = String::new();
        for (k, c) in &self.coefs {
            s.push_str(&format!("{:+}*{} ", c, k));
        }
        s.push_str(&format!("{:+}", self.constant));
        s
    }
}

#[derive(Clone, Debug, PartialEq)]
pub struct NormCon {
    pub key: String,
    pub eq: bool,
    pub lin: NormLin,
}

#[derive(Clone, Debug, PartialEq, Default)]
pub struct NormProblem {
    pub maximize: bool,
    pub objective: NormLin,
    pub constraints: Vec<NormCon>,
    pub vars: BTreeMap<String, Domain>,
}

/// Linear view of a function message (Constant / Linear, or higher variants without higher-degree content).
pub fn norm_function(f: Option<&v1::Function>, key_of: &dyn Fn(u64) -> Result<String, String>) -> Result<NormLin, String> {
    use v1::function::Function as E;
    let mut out = NormLin::default();
    let Some(f) = f else { return Ok(out) };
    match &f.function {
        None => {}
        Some(E::Constant(c)) => out.constant = *c,
        Some(E::Linear(l)) => {
            out.constant = l.constant;
            for t in &l.terms {
                out.add(&key_of(t.id)?, t.coefficient);
            }
        }
        Some(E::Quadratic(q)) => {
            if q.values.iter().any(|v| *v != 0.0) {
                return Err("quadratic term in a linear problem".into());
            }
            if let Some(l) = &q.linear {
                out.constant = l.constant;
                for t in &l.terms {
                    out.add(&key_of(t.id)?, t.coefficient);
                }
            }
        }
        Some(E::Polynomial(p)) => {
            for m in &p.terms {
                match m.ids.len() {
                    0 => out.constant += m.coefficient,
                    1 => out.add(&key_of(m.ids[0])?, m.coefficient),
                    _ => {
                        if m.coefficient != 0.0 {
                            return Err("higher-degree term in a linear problem".into());
                        }
                    }
                }
            }
        }
        #[allow(unreachable_patterns)]
        _ => return Err("unknown function variant".into()),
    }
    out.prune();
    Ok(out)
}

/// Observed problem. `by_name`: variables and constraints are keyed by their names (MPS files from other
/// writers; IDs are assigned in hash order), otherwise by their IDs.
pub fn norm_instance(inst: &v1::Instance, by_name: bool) -> Result<NormProblem, String> {
    let mut ids: BTreeMap<u64, String> = BTreeMap::new();
    let mut vars = BTreeMap::new();
    for d in &inst.decision_variables {
        let key = if by_name { d.name.clone().ok_or_else(|| format!("variable {} has no name", d.id))? } else { d.id.to_string() };
        if ids.insert(d.id, key.clone()).is_some() {
            return Err(format!("duplicate variable id {}", d.id));
        }
        if vars.insert(key.clone(), domain_of_v1(d)?).is_some() {
            return Err(format!("duplicate variable name {}", key));
        }
    }
    let key_of = |id: u64| ids.get(&id).cloned().ok_or_else(|| format!("function uses undefined variable id {}", id));
    let objective = norm_function(inst.objective.as_ref(), &key_of)?;
    let mut constraints = Vec::new();
    let mut seen = std::collections::BTreeSet::new();
    for c in &inst.constraints {
        if !seen.insert(c.id) {
            return Err(format!("duplicate constraint id {}", c.id));
        }
        let key = if by_name { c.name.clone().unwrap_or_default() } else { c.id.to_string() };
        let eq = match v1::Equality::try_from(c.equality) {
            Ok(v1::Equality::EqualToZero) => true,
            Ok(v1::Equality::LessThanOrEqualToZero) => false,
            other => return Err(format!("constraint {} has equality {:?}", key, other)),
        };
        constraints.push(NormCon { key, eq, lin: norm_function(c.function.as_ref(), &key_of)? });
    }
    let maximize = match v1::instance::Sense::try_from(inst.sense) {
        Ok(v1::instance::Sense::Maximize) => true,
        Ok(v1::instance::Sense::Minimize) => false,
        other => return Err(format!("sense is {:?}", other)),
    };
    Ok(NormProblem { maximize, objective, constraints, vars })
}

/// Compare; returns (class suffix, detail) of every difference. `used_only`: variable domains are compared
/// for the variables in `expected.vars` only (the observed problem may or may not list others).
pub fn diff(expected: &NormProblem, got: &NormProblem, constraints_by_key: bool) -> Vec<(String, String)> {
    let mut out = Vec::new();
    if expected.maximize != got.maximize {
        out.push(("sense".into(), format!("expected maximize={} got {}", expected.maximize, got.maximize)));
    }
    if expected.objective.constant != got.objective.constant {
        out.push(("objective-constant".into(), format!("expected {} got {}", expected.objective.constant, got.objective.constant)));
    }
    let (mut e, mut g) = (expected.objective.clone(), got.objective.clone());
    e.constant = 0.0;
    g.constant = 0.0;
    if !e.same(&g) {
        out.push(("objective-terms".into(), format!("expected [{}] got [{}]", e.show(), g.show())));
    }
    for (k, d) in &expected.vars {
        match got.vars.get(k) {
            None => out.push(("variable-missing".into(), format!("variable {} absent", k))),
            Some(o) => {
                if o.int != d.int {
                    out.push(("variable-kind".into(), format!("variable {}: expected integer={} got {}", k, d.int, o.int)));
                }
                if o.lo != d.lo || o.hi != d.hi {
                    out.push(("variable-bounds".into(), format!("variable {}: expected [{}, {}] got [{}, {}]", k, d.lo, d.hi, o.lo, o.hi)));
                }
            }
        }
    }
    if constraints_by_key {
        let mut gmap: BTreeMap<&str, &NormCon> = BTreeMap::new();
        for c in &got.constraints {
            gmap.insert(&c.key, c);
        }
        if expected.constraints.len() != got.constraints.len() {
            out.push(("constraint-count".into(), format!("expected {} constraints got {}", expected.constraints.len(), got.constraints.len())));
        }
        for c in &expected.constraints {
            match gmap.get(c.key.as_str()) {
                None => out.push(("constraint-missing".into(), format!("constraint {} absent", c.key))),
                Some(o) => {
                    if o.eq != c.eq {
                        out.push(("constraint-equality".into(), format!("constraint {}: expected eq={} got {}", c.key, c.eq, o.eq)));
                    }
                    if !o.lin.same(&c.lin) {
                        out.push(("constraint-function".into(), format!("constraint {}: expected [{}] got [{}]", c.key, c.lin.show(), o.lin.show())));
                    }
                }
            }
        }
    }
    out
}
