//! Independent gzip writer (stored deflate blocks + own CRC32, optional header fields as `gzip(1)` writes
//! them), used next to flate2-compressed input so that the container the loader sees is not always the one
//! its own library would have produced.

use serde::{Deserialize, Serialize};

pub fn crc32(data: &[u8]) -> u32 {
    let mut table = [0u32; 256];
    for i in 0..256u32 {
        let mut c = i;
        for _ in 0..8 {
            c = if c & 1 != 0 { 0xEDB88320 ^ (c >> 1) } else { c >> 1 };
        }
        table[i as usize] = c;
    }
    let mut c = 0xFFFF_FFFFu32;
    for b in data {
        c = table[((c ^ *b as u32) & 0xFF) as usize] ^ (c >> 8);
    }
    c ^ 0xFFFF_FFFF
}

#[derive(Clone, Debug, Serialize, Deserialize, PartialEq, Eq)]
pub enum Gz {
    /// not compressed
    Plain,
    /// flate2 at this level
    Flate(u32),
    /// stored blocks of at most `block` bytes; header options
    Stored { block: u16, fname: bool, fcomment: bool, fextra: bool, fhcrc: bool },
    /// several gzip members one after the other (RFC 1952 2.2: "a gzip file consists of a series of members";
    /// what `cat a.gz b.gz`, bgzip and parallel compressors write): the text is cut at these per-mille positions,
    /// member k is flate2 at `level` when k is even, stored blocks otherwise
    Multi { cuts: Vec<u16>, level: u32 },
}

pub fn stored(data: &[u8], block: u16, fname: bool, fcomment: bool, fextra: bool, fhcrc: bool) -> Vec<u8> {
    let mut out = vec![0x1f, 0x8b, 8];
    let flg = (fhcrc as u8) << 1 | (fextra as u8) << 2 | (fname as u8) << 3 | (fcomment as u8) << 4;
    out.push(flg);
    out.extend_from_slice(&[0, 0, 0, 0]); // mtime
    out.push(0); // xfl
    out.push(3); // unix
    if fextra {
        out.extend_from_slice(&[6, 0, b'A', b'p', 2, 0, 7, 9]);
    }
    if fname {
        out.extend_from_slice(b"model.mps\0");
    }
    if fcomment {
        out.extend_from_slice(b"written by the simulator\0");
    }
    if fhcrc {
        let c = crc32(&out) & 0xFFFF;
        out.extend_from_slice(&(c as u16).to_le_bytes());
    }
    let block = block.max(1) as usize;
    if data.is_empty() {
        out.extend_from_slice(&[1, 0, 0, 0xff, 0xff]);
    } else {
        let n = data.len().div_ceil(block);
        for (i, ch) in data.chunks(block).enumerate() {
            out.push((i == n - 1) as u8);
            out.extend_from_slice(&(ch.len() as u16).to_le_bytes());
            out.extend_from_slice(&(!(ch.len() as u16)).to_le_bytes());
            out.extend_from_slice(ch);
        }
    }
    out.extend_from_slice(&crc32(data).to_le_bytes());
    out.extend_from_slice(&(data.len() as u32).to_le_bytes());
    out
}

pub fn pack(gz: &Gz, text: &[u8]) -> Vec<u8> {
    match gz {
        Gz::Plain => text.to_vec(),
        Gz::Flate(level) => {
            use std::io::Write;
            let mut e = flate2::write::GzEncoder::new(Vec::new(), flate2::Compression::new(*level));
            e.write_all(text).unwrap();
            e.finish().unwrap()
        }
        Gz::Stored { block, fname, fcomment, fextra, fhcrc } => stored(text, *block, *fname, *fcomment, *fextra, *fhcrc),
        Gz::Multi { cuts, level } => {
            let mut pos: Vec<usize> = cuts.iter().map(|c| text.len() * (*c as usize).min(1000) / 1000).collect();
            pos.sort();
            pos.push(text.len());
            let mut out = vec![];
            let mut from = 0;
            for (k, to) in pos.into_iter().enumerate() {
                let part = &text[from..to];
                from = to;
                if k % 2 == 0 {
                    out.extend(pack(&Gz::Flate(*level), part));
                } else {
                    out.extend(stored(part, 500, k % 4 == 1, false, false, false));
                }
            }
            out
        }
    }
}
