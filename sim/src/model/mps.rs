//! Abstract LP/MIP model, an independent free-format MPS renderer (all layout variants of the statement) and
//! the problem the statement says the loader must return for it.

use super::lp::{domain, Domain, Kind, NormCon, NormLin, NormProblem, F};
use crate::rng::Rng;
use serde::{Deserialize, Serialize};

#[derive(Clone, Copy, Debug, Serialize, Deserialize, PartialEq, Eq)]
pub enum RowTy {
    E,
    L,
    G,
}
#[derive(Clone, Copy, Debug, Serialize, Deserialize, PartialEq, Eq)]
pub enum BT {
    UP,
    LO,
    FX,
    MI,
    PL,
    FR,
    BV,
    LI,
    UI,
}
impl BT {
    pub fn name(self) -> &'static str {
        match self {
            BT::UP => "UP",
            BT::LO => "LO",
            BT::FX => "FX",
            BT::MI => "MI",
            BT::PL => "PL",
            BT::FR => "FR",
            BT::BV => "BV",
            BT::LI => "LI",
            BT::UI => "UI",
        }
    }
    pub fn has_value(self) -> bool {
        !matches!(self, BT::MI | BT::PL | BT::FR | BT::BV)
    }
}
#[derive(Clone, Debug, Serialize, Deserialize)]
pub struct Col {
    pub name: String,
    /// inside an INTORG/INTEND marker pair
    pub integer: bool,
    pub obj: Option<F>,
    /// (row index, coefficient)
    pub entries: Vec<(usize, F)>,
    pub bounds: Vec<(BT, F)>,
}
#[derive(Clone, Debug, Serialize, Deserialize)]
pub struct Row {
    pub name: String,
    pub ty: RowTy,
    pub rhs: Option<F>,
    pub range: Option<F>,
}
#[derive(Clone, Copy, Debug, Serialize, Deserialize, PartialEq, Eq)]
pub enum SenseSpec {
    Absent,
    InlineMin,
    InlineMax,
    OwnLineMin,
    OwnLineMax,
}
#[derive(Clone, Debug, Serialize, Deserialize)]
pub struct Layout {
    pub seed: u64,
    pub five_field: bool,
    pub comments: bool,
    pub blank_lines: bool,
    /// 0 single blanks, 1 runs of blanks, 2 tabs between fields, 3 mixed
    pub sep: u8,
    /// 0 shortest, 1 mixed styles ("3", "3.0", "-2.5e0", "+3", "0.3E+1")
    pub numbers: u8,
    pub crlf: bool,
    pub final_newline: bool,
    /// position of the N row among ROWS: 0 first, 1 last, 2 middle
    pub n_row_pos: u8,
    pub empty_sections: bool,
    /// kilobytes of comment lines spread over the file, so that it outgrows the readers' internal buffers
    /// (std BufReader 8 KiB, flate2 32 KiB): the refill paths run only then
    #[serde(default)]
    pub padding_kb: u8,
    /// comment lines in front so that a line ends exactly at a buffer boundary of the readers
    #[serde(default)]
    pub align: Option<super::align::Align>,
    /// one comment line of this many KiB (longer than the readers' buffers: the "line does not fit" paths run)
    #[serde(default)]
    pub long_line_kb: u8,
}
impl Layout {
    pub fn plain() -> Layout {
        Layout { seed: 0, five_field: false, comments: false, blank_lines: false, sep: 0, numbers: 0, crlf: false, final_newline: true, n_row_pos: 0, empty_sections: true, padding_kb: 0, align: None, long_line_kb: 0 }
    }
}
#[derive(Clone, Debug, Serialize, Deserialize)]
pub struct MpsModel {
    pub name: String,
    pub sense: SenseSpec,
    pub obj_row: String,
    pub obj_rhs: Option<F>,
    pub cols: Vec<Col>,
    pub rows: Vec<Row>,
}

/// One-token corruptions of a well-formed text, each of which the statement says must be reported as an error.
#[derive(Clone, Debug, Serialize, Deserialize, PartialEq, Eq)]
pub enum Corrupt {
    /// a COLUMNS entry names a row ROWS never declared (col index)
    UndeclaredRowInColumns(usize),
    /// a RANGES entry names a row ROWS never declared
    UndeclaredRowInRanges,
    /// row type letter replaced (row index)
    RowType(usize),
    /// bound type replaced (col index, bound index)
    BoundType(usize, usize),
    /// marker keyword replaced
    Marker,
    /// OBJSENSE value replaced
    Sense,
    /// a number made unparsable: section 0 COLUMNS 1 RHS 2 RANGES 3 BOUNDS, k-th number of that section
    Number(u8, usize),
}

impl MpsModel {
    pub fn maximize(&self) -> bool {
        matches!(self.sense, SenseSpec::InlineMax | SenseSpec::OwnLineMax)
    }

    /// Which corruptions are applicable to this model
    pub fn corruptions(&self) -> Vec<Corrupt> {
        let mut v = vec![];
        for (i, c) in self.cols.iter().enumerate() {
            if c.obj.is_some() || !c.entries.is_empty() {
                v.push(Corrupt::UndeclaredRowInColumns(i));
            }
            for (j, _) in c.bounds.iter().enumerate() {
                v.push(Corrupt::BoundType(i, j));
            }
        }
        v.push(Corrupt::UndeclaredRowInRanges);
        for i in 0..self.rows.len() {
            v.push(Corrupt::RowType(i));
        }
        if self.cols.iter().any(|c| c.integer) {
            v.push(Corrupt::Marker);
        }
        if self.sense != SenseSpec::Absent {
            v.push(Corrupt::Sense);
        }
        let ncol: usize = self.cols.iter().map(|c| c.entries.len() + c.obj.is_some() as usize).sum();
        if ncol > 0 {
            v.push(Corrupt::Number(0, ncol));
        }
        let nrhs = self.rows.iter().filter(|r| r.rhs.is_some()).count() + self.obj_rhs.is_some() as usize;
        if nrhs > 0 {
            v.push(Corrupt::Number(1, nrhs));
        }
        let nrng = self.rows.iter().filter(|r| r.range.is_some()).count();
        if nrng > 0 {
            v.push(Corrupt::Number(2, nrng));
        }
        let nb: usize = self.cols.iter().map(|c| c.bounds.iter().filter(|b| b.0.has_value()).count()).sum();
        if nb > 0 {
            v.push(Corrupt::Number(3, nb));
        }
        v
    }

    /// Domain of a column per the statement: integer markers and the BOUNDS section (UP, LO, FX, MI, PL, FR, BV,
    /// LI, UI; default [0,+inf); a negative UP without LO opens the lower bound).
    pub fn col_domain(&self, c: &Col) -> Domain {
        let mut kind = if c.integer { Kind::Int } else { Kind::Cont };
        let (mut lo, mut hi) = (0.0f64, f64::INFINITY);
        let has_lo = c.bounds.iter().any(|b| matches!(b.0, BT::LO | BT::LI | BT::FX | BT::MI | BT::FR));
        for (t, v) in &c.bounds {
            let v = v.0;
            match t {
                BT::UP | BT::UI => {
                    hi = v;
                    if v < 0.0 && !has_lo {
                        lo = f64::NEG_INFINITY;
                    }
                    if *t == BT::UI {
                        kind = Kind::Int;
                    }
                }
                BT::LO => lo = v,
                BT::LI => {
                    lo = v;
                    kind = Kind::Int;
                }
                BT::FX => {
                    lo = v;
                    hi = v;
                }
                BT::MI => lo = f64::NEG_INFINITY,
                BT::PL => hi = f64::INFINITY,
                BT::FR => {
                    lo = f64::NEG_INFINITY;
                    hi = f64::INFINITY;
                }
                BT::BV => {
                    kind = Kind::Bin;
                    lo = 0.0;
                    hi = 1.0;
                }
            }
        }
        domain(kind, Some((lo, hi)))
    }

    /// Expected problem, keyed by names. A ranged row produces two inequality constraints, keyed
    /// "<row>\u{1}lo" and "<row>\u{1}hi": one of them must carry the row's name in the loaded instance, the name
    /// of the other is unconstrained (it is matched by content).
    pub fn expected(&self) -> NormProblem {
        let mut p = NormProblem { maximize: self.maximize(), ..Default::default() };
        for c in &self.cols {
            if let Some(o) = c.obj {
                p.objective.add(&c.name, o.0);
            }
            p.vars.insert(c.name.clone(), self.col_domain(c));
        }
        p.objective.constant = self.obj_rhs.map(|r| -r.0).unwrap_or(0.0);
        p.objective.prune();
        for (ri, r) in self.rows.iter().enumerate() {
            let mut ax = NormLin::default();
            for c in &self.cols {
                for (k, v) in &c.entries {
                    if *k == ri {
                        ax.add(&c.name, v.0);
                    }
                }
            }
            let rhs = r.rhs.map(|x| x.0).unwrap_or(0.0);
            // ax - hi <= 0
            let le = |hi: f64| {
                let mut l = ax.clone();
                l.constant = -hi;
                l.prune();
                l
            };
            // -(ax) + lo <= 0
            let ge = |lo: f64| {
                let mut l = ax.neg();
                l.constant = lo;
                l.prune();
                l
            };
            match (r.ty, r.range) {
                (RowTy::E, None) => p.constraints.push(NormCon { key: r.name.clone(), eq: true, lin: le(rhs) }),
                (RowTy::L, None) => p.constraints.push(NormCon { key: r.name.clone(), eq: false, lin: le(rhs) }),
                (RowTy::G, None) => p.constraints.push(NormCon { key: r.name.clone(), eq: false, lin: ge(rhs) }),
                (ty, Some(rg)) => {
                    let a = rg.0.abs();
                    let (lo, hi) = match ty {
                        RowTy::G => (rhs, rhs + a),
                        RowTy::L => (rhs - a, rhs),
                        RowTy::E => {
                            if rg.0 > 0.0 {
                                (rhs, rhs + a)
                            } else {
                                (rhs - a, rhs)
                            }
                        }
                    };
                    p.constraints.push(NormCon { key: format!("{}\u{1}lo", r.name), eq: false, lin: ge(lo) });
                    p.constraints.push(NormCon { key: format!("{}\u{1}hi", r.name), eq: false, lin: le(hi) });
                }
            }
        }
        p
    }

    pub fn render(&self, lay: &Layout, corrupt: Option<&Corrupt>) -> String {
        let mut rng = Rng::new(lay.seed ^ 0x5EED);
        let mut lines: Vec<String> = vec![];
        let sep = |rng: &mut Rng| -> String {
            match lay.sep {
                0 => " ".into(),
                1 => " ".repeat(1 + rng.usize(6)),
                2 => "\t".into(),
                _ => (*rng.pick(&[" ", "  ", "\t", " \t ", "     "])).to_string(),
            }
        };
        let num = |rng: &mut Rng, v: f64| -> String {
            if lay.numbers == 0 || !v.is_finite() {
                return format!("{}", v);
            }
            let s = match rng.below(9) {
                0 => format!("{}", v),
                // forms real files use: no digit before or after the point
                7 if v != 0.0 && v.abs() < 1.0 => format!("{}", v).replacen("0.", ".", 1),
                8 if v == v.trunc() && v.abs() < 1e15 => format!("{}.", v),
                // zero written with a minus sign denotes the same number
                6 if v == 0.0 => (*rng.pick(&["-0", "-0.0", "-0e0", "-.0"])).to_string(),
                1 if v == v.trunc() && v.abs() < 1e15 => format!("{:.1}", v),
                2 => format!("{:e}", v),
                3 if v >= 0.0 => format!("+{}", v),
                4 => format!("{}E+1", v / 10.0),
                5 => format!("{:e}", v).replace('e', "E+").replace("E+-", "E-"),
                _ => format!("{}", v),
            };
            // every style must denote exactly the same number
            match s.parse::<f64>() {
                Ok(x) if x == v => s,
                _ => format!("{}", v),
            }
        };
        // data line: leading blank then fields
        let data = |rng: &mut Rng, fields: &[String]| -> String {
            let mut s = String::from(" ");
            if lay.sep == 1 || lay.sep == 3 {
                s.push_str(&" ".repeat(rng.usize(4)));
            }
            for (i, f) in fields.iter().enumerate() {
                if i > 0 {
                    s.push_str(&sep(rng));
                }
                s.push_str(f);
            }
            if lay.sep == 3 && rng.chance(1, 3) {
                s.push_str("  ");
            }
            s
        };
        let noise = |rng: &mut Rng, lines: &mut Vec<String>| {
            if lay.comments && rng.chance(1, 4) {
                lines.push((*rng.pick(&["* a comment", "*", "*ROWS", "* E  fake row", "*    x1  c1  9"])).to_string());
            }
            if lay.blank_lines && rng.chance(1, 5) {
                lines.push((*rng.pick(&["", " ", "   "])).to_string());
            }
        };
        noise(&mut rng, &mut lines);
        lines.push(if self.name.is_empty() { "NAME".to_string() } else { format!("NAME{}{}", if lay.sep >= 2 { "\t" } else { "          " }, self.name) });
        let sense_word = |max: bool| -> String {
            if corrupt == Some(&Corrupt::Sense) {
                "MAXX".into()
            } else if max {
                "MAX".into()
            } else {
                "MIN".into()
            }
        };
        match self.sense {
            SenseSpec::Absent => {}
            SenseSpec::InlineMin => lines.push(format!("OBJSENSE {}", sense_word(false))),
            SenseSpec::InlineMax => lines.push(format!("OBJSENSE {}", sense_word(true))),
            SenseSpec::OwnLineMin => {
                lines.push("OBJSENSE".into());
                lines.push(data(&mut rng, &[sense_word(false)]));
            }
            SenseSpec::OwnLineMax => {
                lines.push("OBJSENSE".into());
                noise(&mut rng, &mut lines);
                lines.push(data(&mut rng, &[sense_word(true)]));
            }
        }
        noise(&mut rng, &mut lines);
        lines.push("ROWS".into());
        let n_at = match lay.n_row_pos {
            0 => 0,
            1 => self.rows.len(),
            _ => self.rows.len() / 2,
        };
        for i in 0..=self.rows.len() {
            if i == n_at {
                lines.push(data(&mut rng, &["N".into(), self.obj_row.clone()]));
            }
            if i < self.rows.len() {
                let r = &self.rows[i];
                let mut ty = match r.ty {
                    RowTy::E => "E",
                    RowTy::L => "L",
                    RowTy::G => "G",
                }
                .to_string();
                if corrupt == Some(&Corrupt::RowType(i)) {
                    ty = "X".into();
                }
                lines.push(data(&mut rng, &[ty, r.name.clone()]));
                noise(&mut rng, &mut lines);
            }
        }
        lines.push("COLUMNS".into());
        let mut in_int = false;
        let mut marker_no = 0;
        let mut number_k = 0usize;
        // for Number corruption the generator stores the *count* in the variant; pick the target deterministically
        let target = |corrupt: Option<&Corrupt>, sec: u8| -> Option<Corrupt> {
            if let Some(Corrupt::Number(cs, n)) = corrupt {
                if *cs == sec && *n > 0 {
                    return Some(Corrupt::Number(sec, 1 + (lay.seed as usize % *n)));
                }
            }
            None
        };
        let ctarget = target(corrupt, 0);
        let mut first_marker = true;
        for (ci, c) in self.cols.iter().enumerate() {
            if c.integer != in_int {
                let kw = if c.integer { "'INTORG'" } else { "'INTEND'" };
                let kw = if corrupt == Some(&Corrupt::Marker) && first_marker { "'INTORX'".to_string() } else { kw.to_string() };
                first_marker = false;
                lines.push(data(&mut rng, &[format!("MARKER{}", marker_no), "'MARKER'".into(), kw]));
                marker_no += 1;
                in_int = c.integer;
            }
            let mut ents: Vec<(String, f64)> = vec![];
            if let Some(o) = c.obj {
                ents.push((self.obj_row.clone(), o.0));
            }
            for (k, v) in &c.entries {
                ents.push((self.rows[*k].name.clone(), v.0));
            }
            if lay.seed & 1 == 1 {
                rng.shuffle(&mut ents);
            }
            if corrupt == Some(&Corrupt::UndeclaredRowInColumns(ci)) && !ents.is_empty() {
                let k = lay.seed as usize % ents.len();
                ents[k].0 = "NO_SUCH_ROW".into();
            }
            let mut i = 0;
            while i < ents.len() {
                let mut fields = vec![c.name.clone(), ents[i].0.clone()];
                let s = num(&mut rng, ents[i].1);
                fields.push(bad_number_apply(&ctarget, 0, &mut number_k, s));
                i += 1;
                if lay.five_field && i < ents.len() && rng.chance(2, 3) {
                    fields.push(ents[i].0.clone());
                    let s = num(&mut rng, ents[i].1);
                    fields.push(bad_number_apply(&ctarget, 0, &mut number_k, s));
                    i += 1;
                }
                lines.push(data(&mut rng, &fields));
            }
            noise(&mut rng, &mut lines);
        }
        if in_int {
            lines.push(data(&mut rng, &[format!("MARKER{}", marker_no), "'MARKER'".into(), "'INTEND'".into()]));
        }
        // RHS
        let mut rhs: Vec<(String, f64)> = vec![];
        if let Some(r) = self.obj_rhs {
            rhs.push((self.obj_row.clone(), r.0));
        }
        for r in &self.rows {
            if let Some(v) = r.rhs {
                rhs.push((r.name.clone(), v.0));
            }
        }
        if lay.seed & 2 == 2 {
            rng.shuffle(&mut rhs);
        }
        let pairs = |rng: &mut Rng, lines: &mut Vec<String>, set: &str, items: &[(String, f64)], sec: u8| {
            let t = target(corrupt, sec);
            let mut k = 0usize;
            let mut i = 0;
            while i < items.len() {
                let mut fields = vec![set.to_string(), items[i].0.clone()];
                let s = num(rng, items[i].1);
                fields.push(bad_number_apply(&t, sec, &mut k, s));
                i += 1;
                if lay.five_field && i < items.len() && rng.chance(2, 3) {
                    fields.push(items[i].0.clone());
                    let s = num(rng, items[i].1);
                    fields.push(bad_number_apply(&t, sec, &mut k, s));
                    i += 1;
                }
                lines.push(data(rng, &fields));
            }
        };
        if !rhs.is_empty() || lay.empty_sections {
            lines.push("RHS".into());
            let set = *rng.pick(&["RHS1", "RHS", "B", "*RHS*"]);
            pairs(&mut rng, &mut lines, set, &rhs, 1);
            noise(&mut rng, &mut lines);
        }
        let mut rngs: Vec<(String, f64)> = self.rows.iter().filter_map(|r| r.range.map(|v| (r.name.clone(), v.0))).collect();
        if corrupt == Some(&Corrupt::UndeclaredRowInRanges) {
            rngs.push(("NO_SUCH_ROW".into(), 1.0));
        }
        if !rngs.is_empty() || (lay.empty_sections && lay.seed & 4 == 4) {
            lines.push("RANGES".into());
            let set = *rng.pick(&["RNG1", "RANGES", "*R"]);
            pairs(&mut rng, &mut lines, set, &rngs, 2);
            noise(&mut rng, &mut lines);
        }
        let has_bounds = self.cols.iter().any(|c| !c.bounds.is_empty());
        if has_bounds || lay.empty_sections {
            lines.push("BOUNDS".into());
            let bnd_set = *rng.pick(&["BND1", "BOUND", "*B"]);
            let t = target(corrupt, 3);
            let mut k = 0usize;
            for (ci, c) in self.cols.iter().enumerate() {
                for (bi, (bt, v)) in c.bounds.iter().enumerate() {
                    let mut ty = bt.name().to_string();
                    if corrupt == Some(&Corrupt::BoundType(ci, bi)) {
                        ty = "XX".into();
                    }
                    let mut fields = vec![ty, bnd_set.to_string(), c.name.clone()];
                    if bt.has_value() {
                        let s = num(&mut rng, v.0);
                        fields.push(bad_number_apply(&t, 3, &mut k, s));
                    } else if lay.seed & 8 == 8 && *bt == BT::BV {
                        fields.push("1".into());
                    }
                    lines.push(data(&mut rng, &fields));
                }
                noise(&mut rng, &mut lines);
            }
        }
        lines.push("ENDATA".into());
        if lay.padding_kb > 0 {
            // comment lines (incompressible enough to also grow the gzip container) at seeded positions before ENDATA
            let total = lay.padding_kb as usize * 1024;
            let mut made = 0;
            let mut prng = Rng::new(lay.seed ^ 0xBADD);
            while made < total {
                let mut l = String::from("* ");
                for _ in 0..70 {
                    l.push((b'!' + prng.below(90) as u8) as char);
                }
                made += l.len() + 1;
                let pos = prng.usize(lines.len());
                lines.insert(pos, l);
            }
        }
        if lay.long_line_kb > 0 {
            let mut prng = Rng::new(lay.seed ^ 0x1046);
            let mut l = String::from("* ");
            for _ in 0..lay.long_line_kb as usize * 1024 {
                l.push((b'!' + prng.below(90) as u8) as char);
            }
            let pos = prng.usize(lines.len());
            lines.insert(pos, l);
        }
        let nl = if lay.crlf { "\r\n" } else { "\n" };
        if let Some(a) = &lay.align {
            let lens: Vec<usize> = lines.iter().map(|l| l.len()).collect();
            let mut prng = Rng::new(lay.seed ^ 0xA116);
            for (k, n) in super::align::pad_lines(a, &lens, nl.len(), lay.final_newline).into_iter().enumerate() {
                let mut l = String::from("*");
                for _ in 1..n {
                    l.push((b'!' + prng.below(90) as u8) as char);
                }
                lines.insert(k, l);
            }
        }
        let mut s = lines.join(nl);
        if lay.final_newline {
            s.push_str(nl);
        }
        s
    }
}

fn bad_number_apply(target: &Option<Corrupt>, sec: u8, k: &mut usize, s: String) -> String {
    *k += 1;
    if let Some(Corrupt::Number(cs, ck)) = target {
        if *cs == sec && *ck == *k {
            return "1.2.3x".to_string();
        }
    }
    s
}

// incl. names that merely look like syntax: a leading '*' (only a '*' in column 1 starts a comment), section keywords
const COL_NAMES: [&str; 23] = ["$S0003", "a$b", "x", "x1", "y.2", "COL.A", "7", "42", "OMMX_VAR_3", "OMMX_VAR_x", "z_", "Var[1,2]", "a-b", "OMMX_VAR_10", "w", "x10", "変数1", "naïve", "x°", "*Y", "RHS", "BOUNDS", "MARKER"];
const ROW_NAMES: [&str; 19] = ["$R1", "#row", "c1", "LIM.1", "17", "R2", "OMMX_CONSTR_5", "cap(3)", "r", "MYEQN", "row-3", "0", "OMMX_CONSTR_a", "lim2", "制約", "é1", "*r", "ENDATA", "ROWS"];

pub fn gen_model(rng: &mut Rng) -> MpsModel {
    // mostly small (the statement's <= 6 columns, <= 5 rows); now and then the size of a small real model, with
    // names as benchmark files have them (long, with digits first, brackets, '#', '$')
    let big = rng.chance(1, 25);
    let nrows = if big { 6 + rng.usize(25) } else { *rng.pick(&[0usize, 1, 1, 2, 2, 3, 4, 5]) };
    let ncols = if big { 7 + rng.usize(34) } else { *rng.pick(&[0usize, 1, 2, 2, 3, 3, 4, 5, 6]) };
    let synth = |rng: &mut Rng, i: usize, row: bool| -> String {
        match rng.below(7) {
            0 => format!("{}{:04}", if row { "R" } else { "C" }, i),
            1 => format!("{}#{}#{}", if row { "c" } else { "x" }, i / 7, i % 7),
            2 => format!("{}_{}_{}", if row { "cons" } else { "flow" }, i, i * 31 % 17),
            3 => format!("{}[{},{}]", if row { "cap" } else { "y" }, i, i + 1),
            4 => format!("{}{}", i, if row { "row$" } else { "col$" }),
            5 => format!("{}{}", if row { "a_rather_long_row_name_beyond_the_eight_characters_of_fixed_format_" } else { "a_rather_long_column_name_beyond_the_eight_characters_of_fixed_format_" }, i),
            _ => format!("{}{}", "n".repeat(260), i),
        }
    };
    let mut rn: Vec<&str> = ROW_NAMES.to_vec();
    rng.shuffle(&mut rn);
    let mut cn: Vec<&str> = COL_NAMES.to_vec();
    rng.shuffle(&mut cn);
    // never *all* columns / rows in the OMMX_VAR_<n> / OMMX_CONSTR_<n> scheme (that is the ID-recovery mode of C18)
    let mut cnames: Vec<String> = cn.iter().take(ncols).map(|s| s.to_string()).collect();
    while cnames.len() < ncols {
        let n = synth(rng, cnames.len(), false);
        cnames.push(n);
    }
    if !cnames.is_empty() && cnames.iter().all(|n| n.starts_with("OMMX_VAR_")) {
        cnames[0] = "plain".into();
    }
    let mut rnames: Vec<String> = rn.iter().take(nrows).map(|s| s.to_string()).collect();
    while rnames.len() < nrows {
        let n = synth(rng, rnames.len(), true);
        rnames.push(n);
    }
    // rows named like the name a reader may derive for the second constraint of a ranged row
    if rnames.len() >= 2 && rng.chance(1, 6) {
        rnames[1] = format!("{}_", rnames[0]);
        if rnames.len() >= 3 && rng.chance(1, 2) {
            rnames[2] = format!("{}__", rnames[0]);
        }
    }
    if !rnames.is_empty() && rnames.iter().all(|n| n.starts_with("OMMX_CONSTR_")) {
        rnames[0] = "plainrow".into();
    }
    let rows: Vec<Row> = rnames
        .into_iter()
        .map(|name| {
            let ty = *rng.pick(&[RowTy::E, RowTy::L, RowTy::G]);
            let rhs = if rng.chance(2, 3) { Some(F(rng.half(5, false))) } else { None };
            let range = if rng.chance(1, 4) { Some(F(rng.half(3, true))) } else { None };
            Row { name, ty, rhs, range }
        })
        .collect();
    let mut cols = vec![];
    // integer columns are grouped so that marker blocks are well formed whatever the order
    for name in cnames {
        let integer = rng.chance(1, 3);
        let nz = !rng.chance(1, 10);
        let obj = if rng.chance(1, 2) { Some(F(rng.half(4, nz))) } else { None };
        let mut entries = vec![];
        for ri in 0..rows.len() {
            if rng.chance(1, 2) {
                let nz = !rng.chance(1, 12);
                entries.push((ri, F(rng.half(4, nz))));
            }
        }
        if obj.is_none() && entries.is_empty() {
            // a column exists in an MPS file only through its entries
            if rows.is_empty() || rng.chance(1, 2) {
                cols.push(Col { name, integer, obj: Some(F(rng.half(4, true))), entries, bounds: gen_bounds(rng, integer) });
                continue;
            }
            entries.push((rng.usize(rows.len()), F(rng.half(4, true))));
        }
        cols.push(Col { name, integer, obj, entries, bounds: gen_bounds(rng, integer) });
    }
    let mut obj_row = (*rng.pick(&["COST", "OBJ", "obj", "Z", "OBJ"])).to_string();
    // an objective row named like the name a reader may derive for the second constraint of a ranged row
    if let Some(r) = rows.iter().find(|r| r.range.is_some()) {
        let derived = format!("{}_", r.name);
        if rng.chance(1, 8) && rows.iter().all(|o| o.name != derived) {
            obj_row = derived;
        }
    }
    let obj_rhs = if rng.chance(1, 3) { Some(F(rng.half(5, true))) } else { None };
    let sense = *rng.pick(&[SenseSpec::Absent, SenseSpec::Absent, SenseSpec::InlineMin, SenseSpec::InlineMax, SenseSpec::OwnLineMin, SenseSpec::OwnLineMax]);
    let name = (*rng.pick(&["", "TESTPROB", "my problem 1", "p.0"])).to_string();
    MpsModel { name, sense, obj_row, obj_rhs, cols, rows }
}

fn gen_bounds(rng: &mut Rng, integer: bool) -> Vec<(BT, F)> {
    let pos = |rng: &mut Rng| F(rng.range(1, 8) as f64 / 2.0);
    let z = F(0.0);
    match rng.below(16) {
        0 | 1 | 2 => vec![],
        3 => vec![(BT::UP, pos(rng))],
        4 => vec![(BT::UP, F(-pos(rng).0))],
        5 => vec![(BT::LO, F(rng.half(3, false)))],
        6 => {
            let l = rng.half(3, false);
            let mut v = vec![(BT::LO, F(l)), (BT::UP, F(l + rng.range(0, 6) as f64 / 2.0))];
            if rng.chance(1, 2) {
                v.swap(0, 1);
            }
            v
        }
        7 => vec![(BT::FX, F(rng.half(3, false)))],
        8 => vec![(BT::MI, z)],
        9 => {
            let mut v = vec![(BT::MI, z), (BT::UP, F(rng.half(3, false)))];
            if rng.chance(1, 2) {
                v.swap(0, 1);
            }
            v
        }
        10 => vec![(BT::PL, z)],
        11 => vec![(BT::FR, z)],
        12 => vec![(BT::BV, z)],
        13 => vec![(BT::LI, F(rng.range(-4, 2) as f64))],
        14 => vec![(BT::UI, F(rng.range(1, 6) as f64))],
        _ => {
            if integer {
                vec![(BT::UP, F(1.0))]
            } else {
                let l = rng.range(-3, 1) as f64;
                vec![(BT::LI, F(l)), (BT::UI, F(l + rng.range(0, 5) as f64))]
            }
        }
    }
}

pub fn gen_layout(rng: &mut Rng) -> Layout {
    if rng.chance(1, 6) {
        return Layout { seed: rng.next(), ..Layout::plain() };
    }
    Layout {
        seed: rng.next(),
        five_field: rng.chance(1, 2),
        comments: rng.chance(1, 2),
        blank_lines: rng.chance(1, 2),
        sep: rng.below(4) as u8,
        numbers: rng.below(2) as u8,
        crlf: rng.chance(1, 5),
        final_newline: rng.chance(4, 5),
        n_row_pos: rng.below(3) as u8,
        empty_sections: rng.chance(1, 2),
        padding_kb: 0,
        align: None,
        long_line_kb: 0,
    }
}
