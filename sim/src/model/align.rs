//! Alignment of a rendered text with the readers' buffers: comment lines are put in front of the text so that
//! a chosen line ends exactly at a buffer boundary (std BufReader 8 KiB, flate2 32 KiB, 64 KiB), or the whole
//! text is exactly that long. Refill paths that are only taken when a terminator is the last / first byte of a
//! buffer run then.
use serde::{Deserialize, Serialize};

#[derive(Clone, Copy, Debug, Serialize, Deserialize, PartialEq, Eq)]
pub struct Align {
    /// which line (modulo the number of lines)
    pub line: u16,
    /// 0: 8192, 1: 16384, 2: 32768, 3: 65536
    pub boundary: u8,
    /// 0: the first byte of the line's terminator is the last byte before the boundary;
    /// 1: it is the first byte after the boundary (the line's text fills the buffer exactly);
    /// 2: the whole text is exactly `boundary` bytes long
    pub variant: u8,
}

pub const BOUNDARIES: [usize; 4] = [8192, 16384, 32768, 65536];

/// Lengths (without terminator) of the comment lines to put in front; `line_lens` are the lengths of the lines of
/// the text, `nl` the length of the terminator, `final_newline` whether the last line is terminated.
pub fn pad_lines(a: &Align, line_lens: &[usize], nl: usize, final_newline: bool) -> Vec<usize> {
    if line_lens.is_empty() {
        return vec![];
    }
    let b = BOUNDARIES[a.boundary as usize % 4];
    let i = a.line as usize % line_lens.len();
    // offset of the first byte of line i's terminator, and total length
    let before: usize = line_lens[..i].iter().map(|l| l + nl).sum();
    let term = before + line_lens[i];
    let total: usize = line_lens.iter().map(|l| l + nl).sum::<usize>() - if final_newline { 0 } else { nl };
    let (have, want_mod) = match a.variant % 3 {
        0 => (term, b - 1),
        1 => (term, 0),
        _ => (total, 0),
    };
    // smallest pad >= 0 with (have + pad) % b == want_mod that can be made of whole comment lines
    let mut pad = (want_mod + b - have % b) % b;
    loop {
        if let Some(v) = split(pad, nl) {
            return v;
        }
        pad += b;
    }
}

/// `pad` bytes as comment lines of at least one character plus a terminator of `nl` bytes each
fn split(mut pad: usize, nl: usize) -> Option<Vec<usize>> {
    let mut out = vec![];
    if pad == 0 {
        return Some(out);
    }
    if pad < 1 + nl {
        return None;
    }
    let full = 80 + nl;
    while pad >= full + 1 + nl {
        out.push(80);
        pad -= full;
    }
    // 1 + nl <= pad <= 80 + 2 nl: one line, or two when one would be too long
    if pad - nl <= 80 {
        out.push(pad - nl);
    } else {
        let a = (pad - 2 * nl) / 2;
        out.push(a);
        out.push(pad - 2 * nl - a);
    }
    Some(out)
}

#[cfg(test)]
mod tests {
    use super::*;
    #[test]
    fn offsets_hit_the_boundary() {
        let mut x = 12345u64;
        let mut next = || {
            x = x.wrapping_mul(6364136223846793005).wrapping_add(1442695040888963407);
            (x >> 33) as usize
        };
        for _ in 0..20000 {
            let n = 1 + next() % 60;
            let lens: Vec<usize> = (0..n).map(|_| next() % 90).collect();
            let nl = 1 + next() % 2;
            let fin = next() % 2 == 0;
            let a = Align { line: (next() % 400) as u16, boundary: (next() % 4) as u8, variant: (next() % 3) as u8 };
            let pads = pad_lines(&a, &lens, nl, fin);
            assert!(pads.iter().all(|p| *p >= 1 && *p <= 80));
            let mut all = pads.clone();
            all.extend(lens.iter().copied());
            let i = pads.len() + a.line as usize % lens.len();
            let term: usize = all[..i].iter().map(|l| l + nl).sum::<usize>() + all[i];
            let total: usize = all.iter().map(|l| l + nl).sum::<usize>() - if fin { 0 } else { nl };
            let b = BOUNDARIES[a.boundary as usize];
            match a.variant {
                0 => assert_eq!(term % b, b - 1),
                1 => assert_eq!(term % b, 0),
                _ => assert_eq!(total % b, 0),
            }
        }
    }
}
