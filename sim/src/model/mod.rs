pub mod gz;
pub mod lp;
pub mod mps;
pub mod msg;
