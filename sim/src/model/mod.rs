pub mod exact;
pub mod gen_msg;
pub mod gz;
pub mod lp;
pub mod mps;
pub mod poly;
pub mod qplib;
pub mod msg;
