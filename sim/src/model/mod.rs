pub mod lp;
pub mod msg;
