//! Abstract QP model, an independent QPLIB renderer and the problem the statement says the loader must return.
//! Indices in the model are 0-based; the file is 1-based.

use super::lp::{domain, Domain, Kind, F};
use super::poly::{fx, Poly};
use crate::rng::Rng;
use serde::{Deserialize, Serialize};

#[derive(Clone, Debug, Serialize, Deserialize)]
pub struct QpModel {
    pub name: String,
    pub okind: char,
    pub vkind: char,
    pub ckind: char,
    pub maximize: bool,
    pub nvars: usize,
    pub ncons: usize,
    /// lower triangle (i >= j) of the symmetric Q0
    pub q0: Vec<(usize, usize, F)>,
    pub b0_default: F,
    pub b0: Vec<(usize, F)>,
    pub q0_const: F,
    /// (constraint, i, j, v), i >= j
    pub qs: Vec<(usize, usize, usize, F)>,
    pub bs: Vec<(usize, usize, F)>,
    pub infinity: F,
    pub cl_default: F,
    pub cl: Vec<(usize, F)>,
    pub cu_default: F,
    pub cu: Vec<(usize, F)>,
    pub l_default: F,
    pub l: Vec<(usize, F)>,
    pub u_default: F,
    pub u: Vec<(usize, F)>,
    pub type_default: u8,
    pub types: Vec<(usize, u8)>,
    pub x0_default: F,
    pub x0: Vec<(usize, F)>,
    pub y0_default: F,
    pub y0: Vec<(usize, F)>,
    pub z0_default: F,
    pub z0: Vec<(usize, F)>,
    pub var_names: Vec<(usize, String)>,
    pub con_names: Vec<(usize, String)>,
}

#[derive(Clone, Debug, Serialize, Deserialize)]
pub struct QpLayout {
    pub seed: u64,
    /// trailing explanatory text after the tokens of a line ("# variables", "5 lines ...")
    pub trailing_text: bool,
    /// comment lines (!, #, %) and blank lines between data lines
    pub comment_lines: bool,
    pub tab: bool,
    pub numbers: u8,
    pub crlf: bool,
    pub final_newline: bool,
    /// extra text lines after the last section
    pub trailing_lines: u8,
    /// case of type code and sense word: 0 canonical, 1 lower, 2 upper
    pub word_case: u8,
    /// kilobytes of comment lines spread over the file (it then outgrows BufReader's 8 KiB buffer)
    #[serde(default)]
    pub padding_kb: u8,
    /// comment lines in front so that a line ends exactly at a buffer boundary of the readers
    #[serde(default)]
    pub align: Option<super::align::Align>,
    /// one comment line of this many KiB (longer than the readers' buffers: the "line does not fit" paths run)
    #[serde(default)]
    pub long_line_kb: u8,
}
impl QpLayout {
    pub fn plain() -> Self {
        QpLayout { seed: 0, trailing_text: false, comment_lines: false, tab: false, numbers: 0, crlf: false, final_newline: true, trailing_lines: 0, word_case: 0, padding_kb: 0, align: None, long_line_kb: 0 }
    }
}

#[derive(Clone, Debug, Serialize, Deserialize, PartialEq, Eq)]
pub enum QCorrupt {
    /// one letter of the type code (0,1,2) replaced by a letter that is no code
    TypeCode(u8),
    /// the k-th count line (modulo the number of count lines) made unparsable
    Count(u32),
    /// the k-th number token (modulo) made unparsable
    Number(u32),
    /// the k-th entry count (modulo) replaced by a count far beyond the number of lines in the file
    /// (`which` selects 10^9, 10^12, 2^62, 2^64-1): the listed entries end prematurely
    CountBeyondFile(u32, u8),
    /// the k-th index token of the entry lines (modulo) replaced by 0 (indices are 1-based)
    IndexZero(u32),
}

/// what a rendered line is, for corruption targeting and the truncation oracle
#[derive(Clone, Copy, PartialEq, Eq, Debug)]
pub enum LineKind {
    Noise,
    Name,
    TypeCode,
    Sense,
    Count,
    /// the count line in front of a list of entries
    EntryCount,
    /// a line whose first `n` tokens are required, the last of them a floating-point number
    Value,
    /// an entry line; the payload is the number of leading index tokens
    Entry(u8),
    Trailing,
}

pub struct Rendered {
    pub text: String,
    /// 1-based physical line number of the corrupted token, if any
    /// number of count lines (all), of entry-count lines, of value lines, of index tokens on entry lines: the targets of the one-token corruptions
    pub kinds: (usize, usize, usize, usize),
    pub corrupt_line: Option<usize>,
    /// the error may be reported at the corrupted line or at any later line (a count that promises more entries
    /// than the file has lines is noticed where the entries stop)
    pub corrupt_line_is_lower_bound: bool,
    /// byte offset of the first byte of the last required line
    pub last_required_start: usize,
    pub n_lines: usize,
}

pub struct ExpectedVar {
    pub dom: Domain,
    pub name: Option<String>,
}
pub struct ExpectedQp {
    pub maximize: bool,
    pub objective: Poly,
    pub vars: Vec<ExpectedVar>,
    /// every constraint is `poly <= 0`
    pub constraints: Vec<Poly>,
}

impl QpModel {
    pub fn has_cons(&self) -> bool {
        !matches!(self.ckind, 'N' | 'B')
    }
    fn dense(default: F, entries: &[(usize, F)], n: usize) -> Vec<f64> {
        let mut v = vec![default.0; n];
        for (i, x) in entries {
            v[*i] = x.0;
        }
        v
    }

    pub fn expected(&self) -> Result<ExpectedQp, String> {
        let inf = self.infinity.0;
        let half = |v: f64, diag: bool| if diag { v / 2.0 } else { v };
        // objective 1/2 x'Q0x + b0'x + q0: a listed lower-triangle entry (i,j), i != j, stands for Q_ij and Q_ji
        let mut obj = Poly::constant(fx(self.q0_const.0)?);
        if self.okind != 'L' {
            for (i, j, v) in &self.q0 {
                obj.add_term(vec![*i as u64, *j as u64], fx(half(v.0, i == j))?);
            }
        }
        for (i, c) in Self::dense(self.b0_default, &self.b0, self.nvars).iter().enumerate() {
            obj.add_term(vec![i as u64], fx(*c)?);
        }
        let mut vars = vec![];
        let (ls, us) = if self.vkind == 'B' { (vec![0.0; self.nvars], vec![1.0; self.nvars]) } else { (Self::dense(self.l_default, &self.l, self.nvars), Self::dense(self.u_default, &self.u, self.nvars)) };
        let mut types = vec![self.type_default; self.nvars];
        for (i, t) in &self.types {
            types[*i] = *t;
        }
        for i in 0..self.nvars {
            let kind = match self.vkind {
                'C' => Kind::Cont,
                'B' => Kind::Bin,
                'I' => Kind::Int,
                _ => match types[i] {
                    0 => Kind::Cont,
                    1 => Kind::Int,
                    _ => Kind::Bin,
                },
            };
            let lo = if ls[i].abs() >= inf { f64::NEG_INFINITY } else { ls[i] };
            let hi = if us[i].abs() >= inf { f64::INFINITY } else { us[i] };
            let name = self.var_names.iter().find(|(k, _)| *k == i).map(|(_, n)| n.clone());
            vars.push(ExpectedVar { dom: domain(kind, Some((lo, hi))), name });
        }
        let mut constraints = vec![];
        if self.has_cons() {
            let cl = Self::dense(self.cl_default, &self.cl, self.ncons);
            let cu = Self::dense(self.cu_default, &self.cu, self.ncons);
            for m in 0..self.ncons {
                let mut body = Poly::default();
                if self.ckind != 'L' {
                    for (k, i, j, v) in &self.qs {
                        if *k == m {
                            body.add_term(vec![*i as u64, *j as u64], fx(half(v.0, i == j))?);
                        }
                    }
                }
                for (k, i, v) in &self.bs {
                    if *k == m {
                        body.add_term(vec![*i as u64], fx(v.0)?);
                    }
                }
                if cu[m].abs() < inf {
                    constraints.push(body.add(&Poly::constant(fx(-cu[m])?)));
                }
                if cl[m].abs() < inf {
                    constraints.push(body.neg().add(&Poly::constant(fx(cl[m])?)));
                }
            }
        }
        Ok(ExpectedQp { maximize: self.maximize, objective: obj, vars, constraints })
    }

    pub fn render(&self, lay: &QpLayout, corrupt: Option<&QCorrupt>) -> Rendered {
        let mut rng = Rng::new(lay.seed ^ 0xA11CE);
        let mut lines: Vec<(String, LineKind)> = vec![];
        let sep = if lay.tab { "\t" } else { " " };
        let num = |rng: &mut Rng, v: f64| -> String {
            let s = if lay.numbers == 0 {
                format!("{:?}", v)
            } else {
                match rng.below(8) {
                    6 if v != 0.0 && v.abs() < 1.0 => format!("{}", v).replacen("0.", ".", 1),
                    7 if v == v.trunc() && v.abs() < 1e15 => format!("{}.", v),
                    5 if v == 0.0 => (*rng.pick(&["-0", "-0.0", "-0e0", "+0"])).to_string(),
                    0 => format!("{}", v),
                    1 => format!("{:e}", v),
                    2 => format!("{:E}", v).replace('E', "E+").replace("E+-", "E-"),
                    3 if v == v.trunc() && v.abs() < 1e15 => format!("{:.1}", v),
                    _ => format!("{:?}", v),
                }
            };
            match s.parse::<f64>() {
                Ok(x) if x == v => s,
                _ => format!("{:?}", v),
            }
        };
        let tail = |rng: &mut Rng, what: &str| -> String {
            if !lay.trailing_text {
                return String::new();
            }
            match rng.below(4) {
                0 => String::new(),
                1 => format!("{sep}# {what}"),
                2 => format!("{sep}{what}"),
                _ => format!("{sep}! {what} |"),
            }
        };
        let noise = |rng: &mut Rng, lines: &mut Vec<(String, LineKind)>| {
            if lay.comment_lines && rng.chance(1, 4) {
                lines.push(((*rng.pick(&["! ---------------", "# a comment", "% another", "", "   ", "  ! indented comment", "!5"])).to_string(), LineKind::Noise));
            }
        };
        macro_rules! single {
            ($tok:expr, $kind:expr, $what:expr) => {{
                noise(&mut rng, &mut lines);
                let t = tail(&mut rng, $what);
                lines.push((format!("{}{}", $tok, t), $kind));
            }};
        }
        let case = |s: &str| match lay.word_case {
            1 => s.to_lowercase(),
            2 => s.to_uppercase(),
            _ => s.to_string(),
        };
        single!(self.name, LineKind::Name, "problem name");
        let mut code: Vec<char> = vec![self.okind, self.vkind, self.ckind];
        if let Some(QCorrupt::TypeCode(k)) = corrupt {
            code[(*k % 3) as usize] = 'Z';
        }
        single!(case(&code.iter().collect::<String>()), LineKind::TypeCode, "problem type");
        single!(case(if self.maximize { "Maximize" } else { "Minimize" }), LineKind::Sense, "sense");
        single!(self.nvars, LineKind::Count, "variables");
        if self.has_cons() {
            single!(self.ncons, LineKind::Count, "general constraints");
        }
        // entries helper
        macro_rules! entries {
            ($items:expr, $what:expr) => {{
                single!($items.len(), LineKind::EntryCount, $what);
                for toks in $items.iter() {
                    noise(&mut rng, &mut lines);
                    let t = tail(&mut rng, "|");
                    lines.push((format!("{}{}", toks.join(sep), t), LineKind::Entry((toks.len() - 1) as u8)));
                }
            }};
        }
        if self.okind != 'L' {
            let items: Vec<Vec<String>> = self.q0.iter().map(|(i, j, v)| vec![(i + 1).to_string(), (j + 1).to_string(), num(&mut rng, v.0)]).collect();
            entries!(items, "nonzeros in lower triangle of Q^0");
        }
        macro_rules! default_and_entries {
            ($d:expr, $ents:expr, $what:expr) => {{
                let d = num(&mut rng, $d.0);
                single!(d, LineKind::Value, $what);
                let items: Vec<Vec<String>> = $ents.iter().map(|(i, v)| vec![(i + 1).to_string(), num(&mut rng, v.0)]).collect();
                entries!(items, "non default entries");
            }};
        }
        default_and_entries!(self.b0_default, self.b0, "default value for entries in b_0");
        let q = num(&mut rng, self.q0_const.0);
        single!(q, LineKind::Value, "value of q^0");
        if self.has_cons() {
            if self.ckind != 'L' {
                let items: Vec<Vec<String>> = self.qs.iter().map(|(m, i, j, v)| vec![(m + 1).to_string(), (i + 1).to_string(), (j + 1).to_string(), num(&mut rng, v.0)]).collect();
                entries!(items, "nonzeros in lower triangle of Q^i");
            }
            let items: Vec<Vec<String>> = self.bs.iter().map(|(m, i, v)| vec![(m + 1).to_string(), (i + 1).to_string(), num(&mut rng, v.0)]).collect();
            entries!(items, "nonzeros in vectors b^i");
        }
        let infs = num(&mut rng, self.infinity.0);
        single!(infs, LineKind::Value, "infinity");
        if self.has_cons() {
            default_and_entries!(self.cl_default, self.cl, "default value for entries in c_l");
            default_and_entries!(self.cu_default, self.cu, "default value for entries in c_u");
        }
        if self.vkind != 'B' {
            default_and_entries!(self.l_default, self.l, "default value for entries in l");
            default_and_entries!(self.u_default, self.u, "default value for entries in u");
        }
        if matches!(self.vkind, 'M' | 'G') {
            single!(self.type_default, LineKind::Count, "default variable type");
            let items: Vec<Vec<String>> = self.types.iter().map(|(i, t)| vec![(i + 1).to_string(), t.to_string()]).collect();
            entries!(items, "non default variable types");
        }
        default_and_entries!(self.x0_default, self.x0, "default value for initial values for x");
        if self.has_cons() {
            default_and_entries!(self.y0_default, self.y0, "default value for initial values for y");
        }
        default_and_entries!(self.z0_default, self.z0, "default value for initial values for z");
        let items: Vec<Vec<String>> = self.var_names.iter().map(|(i, n)| vec![(i + 1).to_string(), n.clone()]).collect();
        entries!(items, "non default names for variables");
        let items: Vec<Vec<String>> = self.con_names.iter().map(|(i, n)| vec![(i + 1).to_string(), n.clone()]).collect();
        entries!(items, "non default names for constraints");
        if lay.padding_kb > 0 {
            let total = lay.padding_kb as usize * 1024;
            let mut made = 0;
            let mut prng = Rng::new(lay.seed ^ 0xBADD);
            while made < total {
                let mut l = String::from(*prng.pick(&["! ", "# ", "% "]));
                for _ in 0..70 {
                    l.push((b'!' + prng.below(90) as u8) as char);
                }
                made += l.len() + 1;
                let pos = prng.usize(lines.len() + 1);
                lines.insert(pos, (l, LineKind::Noise));
            }
        }
        if lay.long_line_kb > 0 {
            let mut prng = Rng::new(lay.seed ^ 0x1046);
            let mut l = String::from(*prng.pick(&["! ", "# ", "% "]));
            for _ in 0..lay.long_line_kb as usize * 1024 {
                l.push((b'!' + prng.below(90) as u8) as char);
            }
            let pos = prng.usize(lines.len() + 1);
            lines.insert(pos, (l, LineKind::Noise));
        }
        if let Some(a) = &lay.align {
            let nl_len = if lay.crlf { 2 } else { 1 };
            let lens: Vec<usize> = lines.iter().map(|l| l.0.len()).collect();
            let mut prng = Rng::new(lay.seed ^ 0xA116);
            // trailing lines come after; the text proper is what is aligned (its last line is terminated when they follow)
            let terminated = lay.final_newline || lay.trailing_lines > 0;
            for (k, n) in super::align::pad_lines(a, &lens, nl_len, terminated).into_iter().enumerate() {
                let mut l = String::from("!");
                for _ in 1..n {
                    l.push((b'!' + prng.below(90) as u8) as char);
                }
                lines.insert(k, (l, LineKind::Noise));
            }
        }
        let last_required = lines.iter().rposition(|(_, k)| *k != LineKind::Noise).unwrap_or(0);
        for i in 0..lay.trailing_lines {
            lines.push((format!("trailing text {i} 1 2 3"), LineKind::Trailing));
        }
        // corruption of a count or a number token
        let mut corrupt_line = None;
        let mut corrupt_line_is_lower_bound = false;
        match corrupt {
            Some(QCorrupt::TypeCode(_)) => corrupt_line = lines.iter().position(|(_, k)| *k == LineKind::TypeCode).map(|i| i + 1),
            Some(QCorrupt::Count(k)) => {
                let idx: Vec<usize> = lines.iter().enumerate().filter(|(_, (_, kind))| matches!(*kind, LineKind::Count | LineKind::EntryCount)).map(|(i, _)| i).collect();
                let li = idx[*k as usize % idx.len()];
                let l = &lines[li].0;
                let first_end = l.find(|c: char| c.is_ascii_whitespace()).unwrap_or(l.len());
                let _ = first_end;
                lines[li].0 = format!("x{}", l);
                corrupt_line = Some(li + 1);
            }
            Some(QCorrupt::CountBeyondFile(k, which)) => {
                let idx: Vec<usize> = lines.iter().enumerate().filter(|(_, (_, kind))| *kind == LineKind::EntryCount).map(|(i, _)| i).collect();
                let li = idx[*k as usize % idx.len()];
                let l = lines[li].0.clone();
                let first_end = l.find(|c: char| c.is_ascii_whitespace()).unwrap_or(l.len());
                let big = ["1000000000", "1000000000000", "4611686018427387904", "18446744073709551615"][*which as usize % 4];
                lines[li].0 = format!("{}{}", big, &l[first_end..]);
                corrupt_line = Some(li + 1);
                corrupt_line_is_lower_bound = true;
            }
            Some(QCorrupt::IndexZero(k)) => {
                let mut idx: Vec<(usize, usize)> = vec![];
                for (i, (_, kind)) in lines.iter().enumerate() {
                    if let LineKind::Entry(n) = kind {
                        for j in 0..*n as usize {
                            idx.push((i, j));
                        }
                    }
                }
                if !idx.is_empty() {
                    let (li, j) = idx[*k as usize % idx.len()];
                    let sepc = if lay.tab { '\t' } else { ' ' };
                    let mut toks: Vec<String> = lines[li].0.split(sepc).map(|t| t.to_string()).collect();
                    toks[j] = "0".into();
                    lines[li].0 = toks.join(&sepc.to_string());
                    corrupt_line = Some(li + 1);
                }
            }
            Some(QCorrupt::Number(k)) => {
                // number tokens: the value of every Value line; the last required token of Entry lines that end in a number
                let mut idx: Vec<usize> = vec![];
                for (i, (_, kind)) in lines.iter().enumerate() {
                    if *kind == LineKind::Value {
                        idx.push(i);
                    }
                }
                let li = idx[*k as usize % idx.len()];
                let l = lines[li].0.clone();
                let first_end = l.find(|c: char| c.is_ascii_whitespace()).unwrap_or(l.len());
                lines[li].0 = format!("{}.2.3x{}", &l[..first_end], &l[first_end..]);
                corrupt_line = Some(li + 1);
            }
            None => {}
        }
        let nl = if lay.crlf { "\r\n" } else { "\n" };
        let mut text = String::new();
        let mut last_required_start = 0;
        for (i, (l, _)) in lines.iter().enumerate() {
            if i == last_required {
                last_required_start = text.len();
            }
            text.push_str(l);
            if i + 1 < lines.len() || lay.final_newline {
                text.push_str(nl);
            }
        }
        let kinds = (
            lines.iter().filter(|(_, k)| matches!(*k, LineKind::Count | LineKind::EntryCount)).count(),
            lines.iter().filter(|(_, k)| *k == LineKind::EntryCount).count(),
            lines.iter().filter(|(_, k)| *k == LineKind::Value).count(),
            lines.iter().map(|(_, k)| if let LineKind::Entry(n) = k { *n as usize } else { 0 }).sum(),
        );
        Rendered { text, kinds, corrupt_line, corrupt_line_is_lower_bound, last_required_start, n_lines: lines.len() }
    }
}

fn sparse(rng: &mut Rng, n: usize, p: (u64, u64), val: &mut dyn FnMut(&mut Rng) -> f64) -> Vec<(usize, F)> {
    let mut v = vec![];
    for i in 0..n {
        if rng.chance(p.0, p.1) {
            let x = val(rng);
            v.push((i, F(x)));
        }
    }
    rng.shuffle(&mut v);
    v
}

pub fn gen_model(rng: &mut Rng) -> QpModel {
    let okind = *rng.pick(&['L', 'D', 'C', 'Q']);
    let vkind = *rng.pick(&['C', 'B', 'M', 'I', 'G']);
    let ckind = *rng.pick(&['N', 'B', 'L', 'D', 'C', 'Q']);
    // mostly small (the statement's <= 5 variables, <= 4 constraints); now and then large enough for indices of
    // two digits
    let big = rng.chance(1, 25);
    let nvars = if big { 9 + rng.usize(25) } else { *rng.pick(&[1usize, 1, 2, 2, 3, 3, 4, 5]) };
    let ncons = if matches!(ckind, 'N' | 'B') {
        0
    } else if big {
        5 + rng.usize(16)
    } else {
        *rng.pick(&[0usize, 1, 1, 2, 2, 3, 4])
    };
    let infinity = *rng.pick(&[1e20, 1e20, 1e10, 1024.0, 8.0]);
    let mut q0 = vec![];
    for i in 0..nvars {
        for j in 0..=i {
            if (okind == 'D' && i != j) || !rng.chance(2, 5) {
                continue;
            }
            q0.push((i, j, F(rng.half(4, true))));
        }
    }
    rng.shuffle(&mut q0);
    let mut qs = vec![];
    for m in 0..ncons {
        for i in 0..nvars {
            for j in 0..=i {
                if (ckind == 'D' && i != j) || !rng.chance(1, 3) {
                    continue;
                }
                qs.push((m, i, j, F(rng.half(4, true))));
            }
        }
    }
    rng.shuffle(&mut qs);
    let mut bs = vec![];
    for m in 0..ncons {
        for i in 0..nvars {
            if rng.chance(1, 2) {
                bs.push((m, i, F(rng.half(4, true))));
            }
        }
    }
    rng.shuffle(&mut bs);
    // values around the infinity threshold: exactly at, above, below
    let mut side = move |rng: &mut Rng, neg_bias: bool| -> f64 {
        // the statement speaks of magnitudes: now and then the value beyond the threshold carries the other sign
        let neg_bias = if rng.chance(1, 6) { !neg_bias } else { neg_bias };
        match rng.below(8) {
            0 => {
                if neg_bias {
                    -infinity
                } else {
                    infinity
                }
            }
            1 => {
                if neg_bias {
                    -infinity * 2.0
                } else {
                    infinity * 2.0
                }
            }
            2 => {
                if neg_bias {
                    -infinity / 2.0
                } else {
                    infinity / 2.0
                }
            }
            _ => rng.half(3, false),
        }
    };
    let cl_default = F(side(rng, true));
    let cu_default = F(side(rng, false));
    // keep c_l <= c_u plausible but do not insist (the loader does not interpret them jointly)
    let cl = sparse(rng, ncons, (1, 2), &mut |r| side(r, true));
    let cu = sparse(rng, ncons, (1, 2), &mut |r| side(r, false));
    let l_default = F(*rng.pick(&[0.0, 0.0, -infinity, -1.5, 1.0]));
    let u_default = F(*rng.pick(&[1.0, infinity, infinity, 3.5, 1.0]));
    let l = sparse(rng, nvars, (1, 3), &mut |r| *r.pick(&[0.0, -2.0, -infinity, -infinity * 2.0, 0.5, 1.0, infinity, infinity * 2.0]));
    let u = sparse(rng, nvars, (1, 3), &mut |r| *r.pick(&[1.0, 2.0, infinity, infinity * 4.0, 7.5, 1.0, -infinity, -infinity * 4.0]));
    let type_default = if vkind == 'M' { *rng.pick(&[0u8, 2]) } else { rng.below(3) as u8 };
    let mut types = vec![];
    for i in 0..nvars {
        if rng.chance(1, 3) {
            types.push((i, if vkind == 'M' { *rng.pick(&[0u8, 2]) } else { rng.below(3) as u8 }));
        }
    }
    // incl. non-ASCII names, names that look like comments or numbers
    let names = ["x", "x_1", "flow[1,2]", "y", "QPVAR", "17", "z.z", "変数", "naïve", "x#1", "a!b", "1e5", "-3"];
    let mut var_names = vec![];
    for i in 0..nvars {
        if rng.chance(1, 3) {
            var_names.push((i, format!("{}{}", rng.pick(&names), i)));
        }
    }
    let mut con_names = vec![];
    for i in 0..ncons {
        if rng.chance(1, 3) {
            con_names.push((i, format!("{}{}", rng.pick(&["con", "制約", "c%", "R_"]), i)));
        }
    }
    QpModel {
        name: (*rng.pick(&["MIPBAND", "QPLIB_0018", "p1", "t"])).to_string(),
        okind,
        vkind,
        ckind,
        maximize: rng.chance(1, 2),
        nvars,
        ncons,
        q0,
        b0_default: F(*rng.pick(&[0.0, 0.0, -0.5, 1.0, 2.5])),
        b0: sparse(rng, nvars, (1, 2), &mut |r| r.half(4, false)),
        q0_const: F(rng.half(5, false)),
        qs,
        bs,
        infinity: F(infinity),
        cl_default,
        cl,
        cu_default,
        cu,
        l_default,
        l,
        u_default,
        u,
        type_default,
        types,
        x0_default: F(rng.half(2, false)),
        x0: sparse(rng, nvars, (1, 4), &mut |r| r.half(2, false)),
        y0_default: F(0.0),
        y0: sparse(rng, ncons, (1, 4), &mut |r| r.half(2, false)),
        z0_default: F(0.0),
        z0: sparse(rng, nvars, (1, 4), &mut |r| r.half(2, false)),
        var_names,
        con_names,
    }
}

pub fn gen_layout(rng: &mut Rng) -> QpLayout {
    if rng.chance(1, 5) {
        return QpLayout { seed: rng.next(), ..QpLayout::plain() };
    }
    QpLayout {
        seed: rng.next(),
        trailing_text: rng.chance(1, 2),
        comment_lines: rng.chance(1, 2),
        tab: rng.chance(1, 4),
        numbers: rng.below(2) as u8,
        crlf: rng.chance(1, 6),
        final_newline: rng.chance(4, 5),
        trailing_lines: *rng.pick(&[0u8, 0, 0, 1, 3]),
        word_case: rng.below(3) as u8,
        padding_kb: 0,
        align: None,
        long_line_kb: 0,
    }
}
