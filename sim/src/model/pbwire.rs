//! The peer: a schema-driven protobuf implementation written for the simulator. It reads a FileDescriptorSet
//! (from protoc over the working tree's .proto files, or cut out of the Python `_pb2.py` modules), generates
//! value trees for any message type, encodes them using all the freedom the wire format gives a conforming
//! producer, and decodes bytes back into canonical value trees.

use crate::rng::Rng;
use prost::Message;
use prost_types::{field_descriptor_proto::Label, field_descriptor_proto::Type, DescriptorProto, FileDescriptorProto, FileDescriptorSet};
use std::collections::{BTreeMap, BTreeSet};

#[derive(Clone, Debug, PartialEq, Eq)]
pub enum Ty {
    Double,
    Float,
    Int64,
    Uint64,
    Int32,
    Uint32,
    Sint32,
    Sint64,
    Fixed32,
    Fixed64,
    Sfixed32,
    Sfixed64,
    Bool,
    Str,
    Bytes,
    Enum(String),
    Msg(String),
}
impl Ty {
    /// the keyword prost uses in `#[prost(<keyword>, ...)]`
    pub fn prost_keyword(&self) -> String {
        match self {
            Ty::Double => "double".into(),
            Ty::Float => "float".into(),
            Ty::Int64 => "int64".into(),
            Ty::Uint64 => "uint64".into(),
            Ty::Int32 => "int32".into(),
            Ty::Uint32 => "uint32".into(),
            Ty::Sint32 => "sint32".into(),
            Ty::Sint64 => "sint64".into(),
            Ty::Fixed32 => "fixed32".into(),
            Ty::Fixed64 => "fixed64".into(),
            Ty::Sfixed32 => "sfixed32".into(),
            Ty::Sfixed64 => "sfixed64".into(),
            Ty::Bool => "bool".into(),
            Ty::Str => "string".into(),
            Ty::Bytes => "bytes".into(),
            Ty::Enum(_) => "enumeration".into(),
            Ty::Msg(_) => "message".into(),
        }
    }
    fn wire(&self) -> u8 {
        match self {
            Ty::Double | Ty::Fixed64 | Ty::Sfixed64 => 1,
            Ty::Float | Ty::Fixed32 | Ty::Sfixed32 => 5,
            Ty::Str | Ty::Bytes | Ty::Msg(_) => 2,
            _ => 0,
        }
    }
    fn packable(&self) -> bool {
        self.wire() != 2
    }
}

#[derive(Clone, Debug, PartialEq, Eq)]
pub enum Card {
    /// proto3 singular scalar without presence: the default value and absence are the same thing
    Implicit,
    /// explicit presence: `optional`, message-typed fields, oneof members
    Optional,
    Repeated,
    Map(Ty, Ty),
}

#[derive(Clone, Debug)]
pub struct FieldDesc {
    pub name: String,
    pub number: u32,
    pub ty: Ty,
    pub card: Card,
    /// index of the (real) oneof this field is a member of
    pub oneof: Option<usize>,
    pub proto3_optional: bool,
}
#[derive(Clone, Debug)]
pub struct MsgDesc {
    pub name: String,
    pub fields: Vec<FieldDesc>,
    pub oneofs: Vec<String>,
}
#[derive(Clone, Debug, Default)]
pub struct Schema {
    pub messages: BTreeMap<String, MsgDesc>,
    pub enums: BTreeMap<String, Vec<(String, i32)>>,
}

fn ty_of(t: Type, type_name: &str) -> Ty {
    let n = type_name.trim_start_matches('.').to_string();
    match t {
        Type::Double => Ty::Double,
        Type::Float => Ty::Float,
        Type::Int64 => Ty::Int64,
        Type::Uint64 => Ty::Uint64,
        Type::Int32 => Ty::Int32,
        Type::Uint32 => Ty::Uint32,
        Type::Sint32 => Ty::Sint32,
        Type::Sint64 => Ty::Sint64,
        Type::Fixed32 => Ty::Fixed32,
        Type::Fixed64 => Ty::Fixed64,
        Type::Sfixed32 => Ty::Sfixed32,
        Type::Sfixed64 => Ty::Sfixed64,
        Type::Bool => Ty::Bool,
        Type::String => Ty::Str,
        Type::Bytes => Ty::Bytes,
        Type::Enum => Ty::Enum(n),
        Type::Message | Type::Group => Ty::Msg(n),
    }
}

impl Schema {
    pub fn from_set_bytes(bytes: &[u8]) -> Result<Schema, String> {
        let set = FileDescriptorSet::decode(bytes).map_err(|e| format!("FileDescriptorSet: {e}"))?;
        Schema::from_files(&set.file)
    }
    pub fn from_file_protos(files: &[Vec<u8>]) -> Result<Schema, String> {
        let mut v = vec![];
        for f in files {
            v.push(FileDescriptorProto::decode(&f[..]).map_err(|e| format!("FileDescriptorProto: {e}"))?);
        }
        Schema::from_files(&v)
    }
    pub fn from_files(files: &[FileDescriptorProto]) -> Result<Schema, String> {
        let mut s = Schema::default();
        // first pass: collect map-entry types
        let mut entries: BTreeMap<String, (Ty, Ty)> = BTreeMap::new();
        fn walk_entries(prefix: &str, m: &DescriptorProto, out: &mut BTreeMap<String, (Ty, Ty)>) {
            let full = format!("{}.{}", prefix, m.name());
            if m.options.as_ref().map(|o| o.map_entry()).unwrap_or(false) {
                let k = m.field.iter().find(|f| f.number() == 1);
                let v = m.field.iter().find(|f| f.number() == 2);
                if let (Some(k), Some(v)) = (k, v) {
                    out.insert(full.clone(), (ty_of(k.r#type(), k.type_name()), ty_of(v.r#type(), v.type_name())));
                }
            }
            for n in &m.nested_type {
                walk_entries(&full, n, out);
            }
        }
        for f in files {
            for m in &f.message_type {
                walk_entries(f.package(), m, &mut entries);
            }
        }
        fn walk(prefix: &str, m: &DescriptorProto, entries: &BTreeMap<String, (Ty, Ty)>, s: &mut Schema) {
            let full = format!("{}.{}", prefix, m.name());
            for e in &m.enum_type {
                s.enums.insert(format!("{}.{}", full, e.name()), e.value.iter().map(|v| (v.name().to_string(), v.number())).collect());
            }
            for n in &m.nested_type {
                walk(&full, n, entries, s);
            }
            if entries.contains_key(&full) {
                return;
            }
            let mut fields = vec![];
            // real oneofs: those with at least one member that is not a proto3-optional synthetic
            let mut real: Vec<usize> = vec![];
            for (oi, _) in m.oneof_decl.iter().enumerate() {
                if m.field.iter().any(|f| f.oneof_index == Some(oi as i32) && !f.proto3_optional()) {
                    real.push(oi);
                }
            }
            for f in &m.field {
                let ty = ty_of(f.r#type(), f.type_name());
                let in_real_oneof = f.oneof_index.map(|i| real.iter().position(|r| *r == i as usize)).flatten();
                let card = if f.label() == Label::Repeated {
                    if let Ty::Msg(n) = &ty {
                        if let Some((k, v)) = entries.get(n) {
                            Card::Map(k.clone(), v.clone())
                        } else {
                            Card::Repeated
                        }
                    } else {
                        Card::Repeated
                    }
                } else if f.proto3_optional() || in_real_oneof.is_some() || matches!(ty, Ty::Msg(_)) {
                    Card::Optional
                } else {
                    Card::Implicit
                };
                fields.push(FieldDesc { name: f.name().to_string(), number: f.number() as u32, ty, card, oneof: in_real_oneof, proto3_optional: f.proto3_optional() });
            }
            let oneofs = real.iter().map(|i| m.oneof_decl[*i].name().to_string()).collect();
            s.messages.insert(full.clone(), MsgDesc { name: full, fields, oneofs });
        }
        for f in files {
            for e in &f.enum_type {
                s.enums.insert(format!("{}.{}", f.package(), e.name()), e.value.iter().map(|v| (v.name().to_string(), v.number())).collect());
            }
            for m in &f.message_type {
                walk(f.package(), m, &entries, &mut s);
            }
        }
        Ok(s)
    }

    /// A comparable rendering of the whole schema (names, numbers, types, labels, enum values)
    pub fn fingerprint(&self) -> Vec<String> {
        let mut v = vec![];
        for (n, m) in &self.messages {
            let mut fs: Vec<&FieldDesc> = m.fields.iter().collect();
            fs.sort_by_key(|f| f.number);
            for f in fs {
                v.push(format!("{} #{} {} {:?} {:?} oneof={:?}", n, f.number, f.name, f.ty, f.card, f.oneof.map(|i| m.oneofs[i].clone())));
            }
        }
        for (n, e) in &self.enums {
            let mut vals = e.clone();
            vals.sort_by_key(|x| x.1);
            v.push(format!("enum {} {:?}", n, vals));
        }
        v
    }
}

/// What `newer` no longer defines the way `older` did, as far as the wire is concerned. A field or an enum constant
/// is identified by its name *and* by its number: a name that moved to another number is a renumbering (or a swap
/// of two names, which changes the meaning of bytes already written); a number whose name disappeared while the
/// number is still defined with the same type, label and oneof membership is a mere rename, which the wire does not
/// see. Additions are never reported.
pub fn compat_diff(older: &Schema, newer: &Schema) -> Vec<String> {
    let mut out = vec![];
    for (mn, pm) in &older.messages {
        let Some(cm) = newer.messages.get(mn) else {
            out.push(format!("message {mn} is no longer defined"));
            continue;
        };
        let members = |m: &MsgDesc, f: &FieldDesc| -> std::collections::BTreeSet<u32> {
            match f.oneof {
                None => Default::default(),
                Some(i) => m.fields.iter().filter(|x| x.oneof == Some(i)).map(|x| x.number).collect(),
            }
        };
        for pf in &pm.fields {
            if let Some(f) = cm.fields.iter().find(|f| f.name == pf.name) {
                if f.number != pf.number {
                    out.push(format!("{mn}.{}: number {} became {}", pf.name, pf.number, f.number));
                    continue;
                }
            }
            let Some(f) = cm.fields.iter().find(|f| f.number == pf.number) else {
                out.push(format!("{mn}.{} (#{}) is no longer defined", pf.name, pf.number));
                continue;
            };
            if format!("{:?} {:?}", f.ty, f.card) != format!("{:?} {:?}", pf.ty, pf.card) {
                out.push(format!("{mn}.{} (#{}): {:?} {:?} became {:?} {:?}", pf.name, pf.number, pf.ty, pf.card, f.ty, f.card));
            }
            let (a, b) = (members(pm, pf), members(cm, f));
            if !a.is_subset(&b) || (a.is_empty() != b.is_empty()) {
                out.push(format!("{mn}.{} (#{}): oneof membership {:?} became {:?}", pf.name, pf.number, a, b));
            }
        }
    }
    for (en, vals) in &older.enums {
        let Some(ce) = newer.enums.get(en) else {
            out.push(format!("enum {en} is no longer defined"));
            continue;
        };
        for (vn, num) in vals {
            if let Some((_, n2)) = ce.iter().find(|v| &v.0 == vn) {
                if n2 != num {
                    out.push(format!("enum {en}: {vn} = {num} became {n2}"));
                    continue;
                }
            }
            if !ce.iter().any(|v| v.1 == *num) {
                out.push(format!("enum {en}: {vn} = {num} is no longer defined"));
            }
        }
    }
    out
}

// ---------------------------------------------------------------------------------------------------------
// value trees

#[derive(Clone, Debug, PartialEq)]
pub enum Val {
    I(i64),
    U(u64),
    F64(u64),
    F32(u32),
    Bool(bool),
    Str(String),
    Bytes(Vec<u8>),
    Enum(i32),
    Msg(MsgVal),
}
#[derive(Clone, Debug, PartialEq)]
pub enum FVal {
    One(Val),
    Many(Vec<Val>),
    Map(Vec<(Val, Val)>),
}
#[derive(Clone, Debug, PartialEq, Default)]
pub struct MsgVal {
    pub ty: String,
    pub fields: BTreeMap<u32, FVal>,
}

fn default_of(ty: &Ty) -> Val {
    match ty {
        Ty::Double => Val::F64(0),
        Ty::Float => Val::F32(0),
        Ty::Int64 | Ty::Int32 | Ty::Sint32 | Ty::Sint64 | Ty::Sfixed32 | Ty::Sfixed64 => Val::I(0),
        Ty::Uint64 | Ty::Uint32 | Ty::Fixed32 | Ty::Fixed64 => Val::U(0),
        Ty::Bool => Val::Bool(false),
        Ty::Str => Val::Str(String::new()),
        Ty::Bytes => Val::Bytes(vec![]),
        Ty::Enum(_) => Val::Enum(0),
        Ty::Msg(n) => Val::Msg(MsgVal { ty: n.clone(), fields: BTreeMap::new() }),
    }
}

fn map_key_order(a: &Val, b: &Val) -> std::cmp::Ordering {
    format!("{:?}", a).cmp(&format!("{:?}", b))
}

impl MsgVal {
    /// canonical form: implicit defaults dropped, empty repeated/maps dropped, maps keyed (last wins) and sorted
    pub fn normalize(&mut self, s: &Schema) {
        let Some(d) = s.messages.get(&self.ty) else { return };
        let mut drop = vec![];
        // zeros compare numerically: prost (like the message's own PartialEq) treats -0.0 as the default 0.0
        fn zero(v: &mut Val) {
            match v {
                Val::F64(b) if *b == (-0.0f64).to_bits() => *b = 0,
                Val::F32(b) if *b == (-0.0f32).to_bits() => *b = 0,
                _ => {}
            }
        }
        for fv in self.fields.values_mut() {
            match fv {
                FVal::One(v) => zero(v),
                FVal::Many(vs) => vs.iter_mut().for_each(zero),
                FVal::Map(es) => es.iter_mut().for_each(|e| zero(&mut e.1)),
            }
        }
        for (num, fv) in self.fields.iter_mut() {
            let Some(fd) = d.fields.iter().find(|f| f.number == *num) else {
                drop.push(*num);
                continue;
            };
            match fv {
                FVal::One(v) => {
                    if let Val::Msg(m) = v {
                        m.normalize(s);
                    }
                    if fd.card == Card::Implicit && *v == default_of(&fd.ty) {
                        drop.push(*num);
                    }
                }
                FVal::Many(vs) => {
                    for v in vs.iter_mut() {
                        if let Val::Msg(m) = v {
                            m.normalize(s);
                        }
                    }
                    if vs.is_empty() {
                        drop.push(*num);
                    }
                }
                FVal::Map(es) => {
                    let mut out: Vec<(Val, Val)> = vec![];
                    for (k, mut v) in es.drain(..) {
                        if let Val::Msg(m) = &mut v {
                            m.normalize(s);
                        }
                        if let Some(p) = out.iter().position(|e| e.0 == k) {
                            out[p].1 = v;
                        } else {
                            out.push((k, v));
                        }
                    }
                    out.sort_by(|a, b| map_key_order(&a.0, &b.0));
                    *es = out;
                    if es.is_empty() {
                        drop.push(*num);
                    }
                }
            }
        }
        for n in drop {
            self.fields.remove(&n);
        }
    }
    /// (message type, field number) of every field carrying a non-default value anywhere in the tree
    pub fn coverage(&self, s: &Schema, out: &mut BTreeSet<(String, u32)>) {
        let Some(d) = s.messages.get(&self.ty) else { return };
        for (num, fv) in &self.fields {
            let Some(fd) = d.fields.iter().find(|f| f.number == *num) else { continue };
            let nondefault = |v: &Val| *v != default_of(&fd.ty) || matches!(v, Val::Msg(_));
            let hit = match fv {
                FVal::One(v) => {
                    if let Val::Msg(m) = v {
                        m.coverage(s, out);
                    }
                    nondefault(v)
                }
                FVal::Many(vs) => {
                    for v in vs {
                        if let Val::Msg(m) = v {
                            m.coverage(s, out);
                        }
                    }
                    !vs.is_empty()
                }
                FVal::Map(es) => {
                    for (_, v) in es {
                        if let Val::Msg(m) = v {
                            m.coverage(s, out);
                        }
                    }
                    !es.is_empty()
                }
            };
            if hit {
                out.insert((self.ty.clone(), *num));
            }
        }
    }
}

// ---------------------------------------------------------------------------------------------------------
// generation

pub struct GenCfg {
    pub max_depth: usize,
    /// allow enum numbers the schema does not define
    pub unknown_enums: bool,
    /// special floats (inf, -0.0; never NaN since values are compared)
    pub special_floats: bool,
}

fn gen_scalar(s: &Schema, ty: &Ty, fd_number: u32, rng: &mut Rng, cfg: &GenCfg, nonzero: bool) -> Val {
    let sentinel = fd_number as i64 * 1000 + rng.range(1, 99);
    match ty {
        Ty::Double => {
            let v: f64 = if cfg.special_floats && rng.chance(1, 12) { *rng.pick(&[f64::INFINITY, f64::NEG_INFINITY, -0.0, 1e300, 5e-324]) } else if !nonzero && rng.chance(1, 8) { 0.0 } else { sentinel as f64 + 0.5 };
            Val::F64(v.to_bits())
        }
        Ty::Float => Val::F32((sentinel as f32 + 0.25).to_bits()),
        Ty::Int64 | Ty::Sint64 | Ty::Sfixed64 => Val::I(if rng.chance(1, 6) { -sentinel } else if rng.chance(1, 12) { i64::MIN } else { sentinel }),
        Ty::Int32 | Ty::Sint32 | Ty::Sfixed32 => Val::I(if rng.chance(1, 6) { -sentinel } else { sentinel }),
        Ty::Uint64 | Ty::Fixed64 => Val::U(if rng.chance(1, 12) { u64::MAX } else if rng.chance(1, 12) { 1 << 63 } else if !nonzero && rng.chance(1, 10) { 0 } else { sentinel as u64 }),
        Ty::Uint32 | Ty::Fixed32 => Val::U(sentinel as u64),
        Ty::Bool => Val::Bool(nonzero || rng.chance(2, 3)),
        Ty::Str => Val::Str(if !nonzero && rng.chance(1, 10) { String::new() } else { format!("s{}-{}", fd_number, (*rng.pick(&["a", "日本", "x y", "\"q\"", "\n"]))) }),
        Ty::Bytes => Val::Bytes(vec![fd_number as u8, 0, 255]),
        Ty::Enum(n) => {
            let vals = s.enums.get(n).cloned().unwrap_or_default();
            if cfg.unknown_enums && rng.chance(1, 10) {
                Val::Enum(77)
            } else if vals.is_empty() {
                Val::Enum(0)
            } else {
                let nz: Vec<i32> = vals.iter().map(|v| v.1).filter(|v| *v != 0 || !nonzero).collect();
                Val::Enum(if nz.is_empty() { vals[0].1 } else { *rng.pick(&nz) })
            }
        }
        Ty::Msg(_) => unreachable!(),
    }
}

pub fn gen_msg(s: &Schema, ty: &str, rng: &mut Rng, depth: usize, cfg: &GenCfg) -> MsgVal {
    let mut m = MsgVal { ty: ty.to_string(), fields: BTreeMap::new() };
    let Some(d) = s.messages.get(ty) else { return m };
    // one member (or none) per oneof
    let mut chosen: Vec<Option<u32>> = vec![];
    for oi in 0..d.oneofs.len() {
        let members: Vec<&FieldDesc> = d.fields.iter().filter(|f| f.oneof == Some(oi)).collect();
        chosen.push(if members.is_empty() || rng.chance(1, 6) { None } else { Some(members[rng.usize(members.len())].number) });
    }
    let full = rng.chance(1, 3);
    for f in &d.fields {
        if let Some(oi) = f.oneof {
            if chosen[oi] != Some(f.number) {
                continue;
            }
        } else if !full && rng.chance(1, 3) {
            continue;
        }
        let sub = |rng: &mut Rng, n: &str| -> Option<Val> {
            if depth >= cfg.max_depth {
                // at the depth limit message fields are present but empty
                Some(Val::Msg(MsgVal { ty: n.to_string(), fields: BTreeMap::new() }))
            } else {
                Some(Val::Msg(gen_msg(s, n, rng, depth + 1, cfg)))
            }
        };
        let one = |rng: &mut Rng, ty: &Ty, nonzero: bool| -> Val {
            match ty {
                Ty::Msg(n) => sub(rng, n).unwrap(),
                t => gen_scalar(s, t, f.number, rng, cfg, nonzero),
            }
        };
        match &f.card {
            Card::Implicit => {
                m.fields.insert(f.number, FVal::One(one(rng, &f.ty, true)));
            }
            Card::Optional => {
                // explicit presence: a present default value is a value
                m.fields.insert(f.number, FVal::One(one(rng, &f.ty, false)));
            }
            Card::Repeated => {
                let n = if depth >= cfg.max_depth && matches!(f.ty, Ty::Msg(_)) { rng.usize(2) } else { 1 + rng.usize(3) };
                let vs: Vec<Val> = (0..n).map(|_| one(rng, &f.ty, false)).collect();
                if !vs.is_empty() {
                    m.fields.insert(f.number, FVal::Many(vs));
                }
            }
            Card::Map(k, v) => {
                let n = 1 + rng.usize(3);
                let mut es: Vec<(Val, Val)> = vec![];
                for _ in 0..n {
                    let key = gen_scalar(s, k, f.number, rng, cfg, false);
                    if es.iter().any(|e| e.0 == key) {
                        continue;
                    }
                    es.push((key, one(rng, v, false)));
                }
                m.fields.insert(f.number, FVal::Map(es));
            }
        }
    }
    m
}

// ---------------------------------------------------------------------------------------------------------
// encoding with the producer's freedom

#[derive(Clone, Debug)]
pub struct EncOpts {
    pub shuffle_fields: bool,
    /// 0 packed (proto3 default), 1 unpacked, 2 packed in several chunks, 3 mixed
    pub packing: u8,
    pub shuffle_map_entries: bool,
    pub swap_entry_fields: bool,
    pub write_implicit_defaults: bool,
    pub unknown_fields: bool,
    pub non_minimal_varints: bool,
    pub seed: u64,
}
impl EncOpts {
    pub fn canonical() -> Self {
        EncOpts { shuffle_fields: false, packing: 0, shuffle_map_entries: false, swap_entry_fields: false, write_implicit_defaults: false, unknown_fields: false, non_minimal_varints: false, seed: 0 }
    }
    pub fn random(rng: &mut Rng) -> Self {
        if rng.chance(1, 6) {
            return EncOpts { seed: rng.next(), ..EncOpts::canonical() };
        }
        EncOpts { shuffle_fields: rng.chance(1, 2), packing: rng.below(4) as u8, shuffle_map_entries: rng.chance(1, 2), swap_entry_fields: rng.chance(1, 3), write_implicit_defaults: rng.chance(1, 3), unknown_fields: rng.chance(1, 3), non_minimal_varints: rng.chance(1, 4), seed: rng.next() }
    }
}

fn put_varint(out: &mut Vec<u8>, mut v: u64, pad: usize) {
    let mut n = 0;
    loop {
        let b = (v & 0x7f) as u8;
        v >>= 7;
        n += 1;
        if v == 0 && n > pad.min(9) {
            out.push(b);
            return;
        }
        if v == 0 && n >= 10 {
            out.push(b);
            return;
        }
        out.push(b | 0x80);
    }
}
fn zigzag(v: i64) -> u64 {
    ((v << 1) ^ (v >> 63)) as u64
}
fn unzigzag(v: u64) -> i64 {
    ((v >> 1) as i64) ^ -((v & 1) as i64)
}

struct Enc<'a> {
    s: &'a Schema,
    o: &'a EncOpts,
    rng: Rng,
}

impl<'a> Enc<'a> {
    fn pad(&mut self) -> usize {
        if self.o.non_minimal_varints && self.rng.chance(1, 4) {
            1 + self.rng.usize(3)
        } else {
            0
        }
    }
    fn key(&mut self, out: &mut Vec<u8>, number: u32, wire: u8) {
        let p = self.pad();
        put_varint(out, ((number as u64) << 3) | wire as u64, p);
    }
    fn scalar_payload(&mut self, out: &mut Vec<u8>, ty: &Ty, v: &Val) {
        match (ty, v) {
            (Ty::Double, Val::F64(b)) => out.extend_from_slice(&b.to_le_bytes()),
            (Ty::Float, Val::F32(b)) => out.extend_from_slice(&b.to_le_bytes()),
            (Ty::Fixed64, Val::U(u)) => out.extend_from_slice(&u.to_le_bytes()),
            (Ty::Sfixed64, Val::I(i)) => out.extend_from_slice(&i.to_le_bytes()),
            (Ty::Fixed32, Val::U(u)) => out.extend_from_slice(&(*u as u32).to_le_bytes()),
            (Ty::Sfixed32, Val::I(i)) => out.extend_from_slice(&(*i as i32).to_le_bytes()),
            (Ty::Int64 | Ty::Int32, Val::I(i)) => {
                let p = self.pad();
                put_varint(out, *i as u64, p)
            }
            (Ty::Sint64 | Ty::Sint32, Val::I(i)) => {
                let p = self.pad();
                put_varint(out, zigzag(*i), p)
            }
            (Ty::Uint64 | Ty::Uint32, Val::U(u)) => {
                let p = self.pad();
                put_varint(out, *u, p)
            }
            (Ty::Bool, Val::Bool(b)) => out.push(*b as u8),
            (Ty::Enum(_), Val::Enum(e)) => {
                let p = self.pad();
                put_varint(out, *e as i64 as u64, p)
            }
            (Ty::Str, Val::Str(x)) => {
                let p = self.pad();
                put_varint(out, x.len() as u64, p);
                out.extend_from_slice(x.as_bytes());
            }
            (Ty::Bytes, Val::Bytes(x)) => {
                let p = self.pad();
                put_varint(out, x.len() as u64, p);
                out.extend_from_slice(x);
            }
            (Ty::Msg(_), Val::Msg(m)) => {
                let b = self.msg(m);
                let p = self.pad();
                put_varint(out, b.len() as u64, p);
                out.extend_from_slice(&b);
            }
            (t, v) => panic!("peer: value {:?} does not fit type {:?}", v, t),
        }
    }
    fn single(&mut self, number: u32, ty: &Ty, v: &Val) -> Vec<u8> {
        let mut out = vec![];
        self.key(&mut out, number, ty.wire());
        self.scalar_payload(&mut out, ty, v);
        out
    }
    fn unknown(&mut self) -> Vec<u8> {
        let mut out = vec![];
        let number = 1000 + self.rng.below(50) as u32;
        match self.rng.below(4) {
            0 => {
                self.key(&mut out, number, 0);
                put_varint(&mut out, self.rng.next(), 0);
            }
            1 => {
                self.key(&mut out, number, 1);
                out.extend_from_slice(&self.rng.next().to_le_bytes());
            }
            2 => {
                self.key(&mut out, number, 2);
                let n = self.rng.usize(6);
                put_varint(&mut out, n as u64, 0);
                for _ in 0..n {
                    out.push(self.rng.next() as u8);
                }
            }
            _ => {
                self.key(&mut out, number, 5);
                out.extend_from_slice(&(self.rng.next() as u32).to_le_bytes());
            }
        }
        out
    }
    fn msg(&mut self, m: &MsgVal) -> Vec<u8> {
        let Some(d) = self.s.messages.get(&m.ty) else { return vec![] };
        // records; records of the same field keep their relative order when shuffled
        let mut records: Vec<(u32, Vec<u8>)> = vec![];
        for f in &d.fields {
            match m.fields.get(&f.number) {
                None => {
                    if f.card == Card::Implicit && self.o.write_implicit_defaults && self.rng.chance(1, 2) {
                        let dv = default_of(&f.ty);
                        let r = self.single(f.number, &f.ty, &dv);
                        records.push((f.number, r));
                    }
                }
                Some(FVal::One(v)) => {
                    let r = self.single(f.number, &f.ty, v);
                    records.push((f.number, r));
                }
                Some(FVal::Many(vs)) => {
                    let packed = f.ty.packable()
                        && match self.o.packing {
                            0 => true,
                            1 => false,
                            2 => true,
                            _ => self.rng.chance(1, 2),
                        };
                    if packed {
                        let nchunks = if self.o.packing >= 2 && vs.len() >= 2 { 1 + self.rng.usize(vs.len()) } else { 1 };
                        let per = vs.len().div_ceil(nchunks);
                        for ch in vs.chunks(per.max(1)) {
                            let mut body = vec![];
                            for v in ch {
                                self.scalar_payload(&mut body, &f.ty, v);
                            }
                            let mut r = vec![];
                            self.key(&mut r, f.number, 2);
                            let p = self.pad();
                            put_varint(&mut r, body.len() as u64, p);
                            r.extend_from_slice(&body);
                            records.push((f.number, r));
                        }
                    } else {
                        for v in vs {
                            let r = self.single(f.number, &f.ty, v);
                            records.push((f.number, r));
                        }
                    }
                }
                Some(FVal::Map(es)) => {
                    let Card::Map(kt, vt) = &f.card else { continue };
                    let mut es = es.clone();
                    if self.o.shuffle_map_entries {
                        self.rng.shuffle(&mut es);
                    }
                    for (k, v) in &es {
                        let mut body = vec![];
                        let kr = if *k == default_of(kt) && self.o.write_implicit_defaults && self.rng.chance(1, 2) { vec![] } else { self.single(1, kt, k) };
                        let vr = if !matches!(vt, Ty::Msg(_)) && *v == default_of(vt) && self.o.write_implicit_defaults && self.rng.chance(1, 2) { vec![] } else { self.single(2, vt, v) };
                        if self.o.swap_entry_fields && self.rng.chance(1, 2) {
                            body.extend_from_slice(&vr);
                            body.extend_from_slice(&kr);
                        } else {
                            body.extend_from_slice(&kr);
                            body.extend_from_slice(&vr);
                        }
                        let mut r = vec![];
                        self.key(&mut r, f.number, 2);
                        let p = self.pad();
                        put_varint(&mut r, body.len() as u64, p);
                        r.extend_from_slice(&body);
                        records.push((f.number, r));
                    }
                }
            }
        }
        if self.o.unknown_fields {
            for _ in 0..1 + self.rng.usize(2) {
                let r = self.unknown();
                records.push((u32::MAX, r));
            }
        }
        if self.o.shuffle_fields {
            // a random interleaving that keeps the order of records of the same field
            let mut groups: BTreeMap<u32, Vec<Vec<u8>>> = BTreeMap::new();
            let mut order: Vec<u32> = vec![];
            for (n, r) in records {
                order.push(n);
                groups.entry(n).or_default().push(r);
            }
            self.rng.shuffle(&mut order);
            let mut cursor: BTreeMap<u32, usize> = BTreeMap::new();
            let mut out = vec![];
            for n in order {
                let i = cursor.entry(n).or_insert(0);
                out.extend_from_slice(&groups[&n][*i]);
                *i += 1;
            }
            out
        } else {
            records.into_iter().flat_map(|r| r.1).collect()
        }
    }
}

pub fn encode(s: &Schema, m: &MsgVal, o: &EncOpts) -> Vec<u8> {
    let mut e = Enc { s, o, rng: Rng::new(o.seed ^ 0xE9C0DE) };
    e.msg(m)
}

// ---------------------------------------------------------------------------------------------------------
// decoding

struct Rd<'a> {
    b: &'a [u8],
    p: usize,
}
impl<'a> Rd<'a> {
    fn varint(&mut self) -> Result<u64, String> {
        let mut v: u64 = 0;
        for i in 0..10 {
            let Some(x) = self.b.get(self.p) else { return Err("truncated varint".into()) };
            self.p += 1;
            v |= ((*x & 0x7f) as u64) << (7 * i).min(63);
            if x & 0x80 == 0 {
                return Ok(v);
            }
        }
        Err("varint too long".into())
    }
    fn take(&mut self, n: usize) -> Result<&'a [u8], String> {
        if self.p + n > self.b.len() {
            return Err("truncated field".into());
        }
        let s = &self.b[self.p..self.p + n];
        self.p += n;
        Ok(s)
    }
    fn done(&self) -> bool {
        self.p >= self.b.len()
    }
}

fn read_scalar(ty: &Ty, wire: u8, r: &mut Rd) -> Result<Val, String> {
    if wire != ty.wire() {
        return Err(format!("wire type {} does not fit {:?}", wire, ty));
    }
    Ok(match ty {
        Ty::Double => Val::F64(u64::from_le_bytes(r.take(8)?.try_into().unwrap())),
        Ty::Float => Val::F32(u32::from_le_bytes(r.take(4)?.try_into().unwrap())),
        Ty::Fixed64 => Val::U(u64::from_le_bytes(r.take(8)?.try_into().unwrap())),
        Ty::Sfixed64 => Val::I(i64::from_le_bytes(r.take(8)?.try_into().unwrap())),
        Ty::Fixed32 => Val::U(u32::from_le_bytes(r.take(4)?.try_into().unwrap()) as u64),
        Ty::Sfixed32 => Val::I(i32::from_le_bytes(r.take(4)?.try_into().unwrap()) as i64),
        Ty::Int64 => Val::I(r.varint()? as i64),
        Ty::Int32 => Val::I(r.varint()? as i64 as i32 as i64),
        Ty::Sint64 => Val::I(unzigzag(r.varint()?)),
        Ty::Sint32 => Val::I(unzigzag(r.varint()?) as i32 as i64),
        Ty::Uint64 => Val::U(r.varint()?),
        Ty::Uint32 => Val::U(r.varint()? as u32 as u64),
        Ty::Bool => Val::Bool(r.varint()? != 0),
        Ty::Enum(_) => Val::Enum(r.varint()? as i64 as i32),
        Ty::Str => {
            let n = r.varint()? as usize;
            Val::Str(String::from_utf8(r.take(n)?.to_vec()).map_err(|_| "invalid UTF-8 in a string field".to_string())?)
        }
        Ty::Bytes => {
            let n = r.varint()? as usize;
            Val::Bytes(r.take(n)?.to_vec())
        }
        Ty::Msg(_) => unreachable!(),
    })
}

pub fn decode(s: &Schema, ty: &str, bytes: &[u8]) -> Result<MsgVal, String> {
    let d = s.messages.get(ty).ok_or_else(|| format!("unknown message type {ty}"))?;
    let mut m = MsgVal { ty: ty.to_string(), fields: BTreeMap::new() };
    let mut r = Rd { b: bytes, p: 0 };
    while !r.done() {
        let key = r.varint()?;
        let number = (key >> 3) as u32;
        let wire = (key & 7) as u8;
        let fd = d.fields.iter().find(|f| f.number == number);
        let Some(fd) = fd else {
            match wire {
                0 => {
                    r.varint()?;
                }
                1 => {
                    r.take(8)?;
                }
                2 => {
                    let n = r.varint()? as usize;
                    r.take(n)?;
                }
                5 => {
                    r.take(4)?;
                }
                w => return Err(format!("unsupported wire type {w} in an unknown field")),
            }
            continue;
        };
        match &fd.card {
            Card::Map(kt, vt) => {
                if wire != 2 {
                    return Err(format!("map field {} with wire type {}", fd.name, wire));
                }
                let n = r.varint()? as usize;
                let body = r.take(n)?;
                let mut er = Rd { b: body, p: 0 };
                let mut k = default_of(kt);
                let mut v = default_of(vt);
                while !er.done() {
                    let key = er.varint()?;
                    match ((key >> 3) as u32, (key & 7) as u8) {
                        (1, w) => k = read_scalar(kt, w, &mut er)?,
                        (2, w) => {
                            if let Ty::Msg(n) = vt {
                                if w != 2 {
                                    return Err("map value wire type".into());
                                }
                                let l = er.varint()? as usize;
                                v = Val::Msg(decode(s, n, er.take(l)?)?);
                            } else {
                                v = read_scalar(vt, w, &mut er)?;
                            }
                        }
                        (_, 0) => {
                            er.varint()?;
                        }
                        (_, 1) => {
                            er.take(8)?;
                        }
                        (_, 2) => {
                            let l = er.varint()? as usize;
                            er.take(l)?;
                        }
                        (_, 5) => {
                            er.take(4)?;
                        }
                        _ => return Err("bad map entry".into()),
                    }
                }
                match m.fields.entry(number).or_insert_with(|| FVal::Map(vec![])) {
                    FVal::Map(es) => es.push((k, v)),
                    _ => unreachable!(),
                }
            }
            Card::Repeated => {
                let slot = m.fields.entry(number).or_insert_with(|| FVal::Many(vec![]));
                let FVal::Many(vs) = slot else { unreachable!() };
                if let Ty::Msg(n) = &fd.ty {
                    if wire != 2 {
                        return Err(format!("message field {} with wire type {}", fd.name, wire));
                    }
                    let l = r.varint()? as usize;
                    vs.push(Val::Msg(decode(s, n, r.take(l)?)?));
                } else if wire == 2 && fd.ty.packable() {
                    let l = r.varint()? as usize;
                    let body = r.take(l)?;
                    let mut pr = Rd { b: body, p: 0 };
                    while !pr.done() {
                        vs.push(read_scalar(&fd.ty, fd.ty.wire(), &mut pr)?);
                    }
                } else {
                    vs.push(read_scalar(&fd.ty, wire, &mut r)?);
                }
            }
            Card::Implicit | Card::Optional => {
                let v = if let Ty::Msg(n) = &fd.ty {
                    if wire != 2 {
                        return Err(format!("message field {} with wire type {}", fd.name, wire));
                    }
                    let l = r.varint()? as usize;
                    Val::Msg(decode(s, n, r.take(l)?)?)
                } else {
                    read_scalar(&fd.ty, wire, &mut r)?
                };
                // a later member of the same oneof replaces an earlier one
                if let Some(oi) = fd.oneof {
                    let others: Vec<u32> = d.fields.iter().filter(|f| f.oneof == Some(oi) && f.number != number).map(|f| f.number).collect();
                    for o in others {
                        m.fields.remove(&o);
                    }
                }
                m.fields.insert(number, FVal::One(v));
            }
        }
    }
    Ok(m)
}

// ---------------------------------------------------------------------------------------------------------
// protobuf text format (input of `protoc --encode`)

fn text_scalar(s: &Schema, ty: &Ty, v: &Val) -> String {
    match (ty, v) {
        (_, Val::F64(b)) => {
            let f = f64::from_bits(*b);
            if f.is_infinite() {
                if f > 0.0 { "inf".into() } else { "-inf".into() }
            } else {
                format!("{:?}", f)
            }
        }
        (_, Val::F32(b)) => format!("{:?}", f32::from_bits(*b)),
        (_, Val::I(i)) => i.to_string(),
        (_, Val::U(u)) => u.to_string(),
        (_, Val::Bool(b)) => b.to_string(),
        (Ty::Enum(n), Val::Enum(e)) => s.enums.get(n).and_then(|vs| vs.iter().find(|x| x.1 == *e)).map(|x| x.0.clone()).unwrap_or_else(|| e.to_string()),
        (_, Val::Str(x)) => {
            let mut o = String::from("\"");
            for b in x.bytes() {
                match b {
                    b'"' => o.push_str("\\\""),
                    b'\\' => o.push_str("\\\\"),
                    b'\n' => o.push_str("\\n"),
                    0x20..=0x7e => o.push(b as char),
                    _ => o.push_str(&format!("\\{:03o}", b)),
                }
            }
            o.push('"');
            o
        }
        (_, Val::Bytes(x)) => format!("\"{}\"", x.iter().map(|b| format!("\\{:03o}", b)).collect::<String>()),
        _ => String::new(),
    }
}

pub fn to_text(s: &Schema, m: &MsgVal, indent: usize, out: &mut String) {
    let Some(d) = s.messages.get(&m.ty) else { return };
    let pad = " ".repeat(indent);
    for (num, fv) in &m.fields {
        let Some(fd) = d.fields.iter().find(|f| f.number == *num) else { continue };
        let mut one = |ty: &Ty, v: &Val, name: &str, out: &mut String| match v {
            Val::Msg(sub) => {
                out.push_str(&format!("{pad}{name} {{\n"));
                to_text(s, sub, indent + 2, out);
                out.push_str(&format!("{pad}}}\n"));
            }
            v => out.push_str(&format!("{pad}{name}: {}\n", text_scalar(s, ty, v))),
        };
        match fv {
            FVal::One(v) => one(&fd.ty, v, &fd.name, out),
            FVal::Many(vs) => {
                for v in vs {
                    one(&fd.ty, v, &fd.name, out);
                }
            }
            FVal::Map(es) => {
                let Card::Map(kt, vt) = &fd.card else { continue };
                for (k, v) in es {
                    out.push_str(&format!("{pad}{} {{\n{pad}  key: {}\n", fd.name, text_scalar(s, kt, k)));
                    match v {
                        Val::Msg(sub) => {
                            out.push_str(&format!("{pad}  value {{\n"));
                            to_text(s, sub, indent + 4, out);
                            out.push_str(&format!("{pad}  }}\n"));
                        }
                        v => out.push_str(&format!("{pad}  value: {}\n", text_scalar(s, vt, v))),
                    }
                    out.push_str(&format!("{pad}}}\n"));
                }
            }
        }
    }
}
