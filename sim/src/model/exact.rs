//! Explicit, serialisable specs of messages (so that a replay file spells the workload out), builders into the
//! prost types, a seeded generator of valid instances whose evaluation is exact (small dyadic coefficients and
//! values), and the Problem model: the reference semantics of evaluation.

use super::lp::F;
use super::msg;
use super::poly::{fx, fx_f64, Assign, Fx, Poly};
use crate::rng::Rng;
use ommx::v1;
use serde::{Deserialize, Serialize};
use std::collections::{BTreeMap, BTreeSet};

#[derive(Clone, Debug, Serialize, Deserialize, PartialEq)]
pub enum FuncSpec {
    /// Function message whose oneof is unset
    Unset,
    Constant(F),
    Linear { terms: Vec<(u64, F)>, constant: F },
    Quadratic { entries: Vec<(u64, u64, F)>, linear: Option<(Vec<(u64, F)>, F)> },
    Polynomial { terms: Vec<(Vec<u64>, F)> },
}

impl FuncSpec {
    pub fn to_v1(&self) -> v1::Function {
        match self {
            FuncSpec::Unset => v1::Function::default(),
            FuncSpec::Constant(c) => msg::f_const(c.0),
            FuncSpec::Linear { terms, constant } => msg::f_lin(msg::linear(&terms.iter().map(|(i, c)| (*i, c.0)).collect::<Vec<_>>(), constant.0)),
            FuncSpec::Quadratic { entries, linear } => msg::f_quad(msg::quadratic(
                &entries.iter().map(|(r, c, v)| (*r, *c, v.0)).collect::<Vec<_>>(),
                linear.as_ref().map(|(t, c)| msg::linear(&t.iter().map(|(i, c)| (*i, c.0)).collect::<Vec<_>>(), c.0)),
            )),
            FuncSpec::Polynomial { terms } => msg::f_poly(msg::polynomial(&terms.iter().map(|(i, c)| (i.clone(), c.0)).collect::<Vec<_>>())),
        }
    }
    pub fn poly(&self) -> Poly {
        Poly::from_function(Some(&self.to_v1())).expect("spec coefficients are dyadic")
    }
    pub fn ids(&self) -> BTreeSet<u64> {
        // every id *occurring in the message*, also under a zero coefficient
        let mut s = BTreeSet::new();
        match self {
            FuncSpec::Unset | FuncSpec::Constant(_) => {}
            FuncSpec::Linear { terms, .. } => s.extend(terms.iter().map(|t| t.0)),
            FuncSpec::Quadratic { entries, linear } => {
                for (r, c, _) in entries {
                    s.insert(*r);
                    s.insert(*c);
                }
                if let Some((t, _)) = linear {
                    s.extend(t.iter().map(|t| t.0));
                }
            }
            FuncSpec::Polynomial { terms } => {
                for (ids, _) in terms {
                    s.extend(ids.iter().copied());
                }
            }
        }
        s
    }
    /// replace every occurrence of id `from` by `to`
    pub fn rename(&mut self, from: u64, to: u64) {
        let r = |x: &mut u64| {
            if *x == from {
                *x = to
            }
        };
        match self {
            FuncSpec::Unset | FuncSpec::Constant(_) => {}
            FuncSpec::Linear { terms, .. } => terms.iter_mut().for_each(|t| r(&mut t.0)),
            FuncSpec::Quadratic { entries, linear } => {
                entries.iter_mut().for_each(|e| {
                    r(&mut e.0);
                    r(&mut e.1)
                });
                if let Some((t, _)) = linear {
                    t.iter_mut().for_each(|t| r(&mut t.0));
                }
            }
            FuncSpec::Polynomial { terms } => terms.iter_mut().for_each(|(ids, _)| ids.iter_mut().for_each(r)),
        }
    }
    /// number of id positions (for "an undefined variable at each term")
    pub fn id_positions(&self) -> usize {
        match self {
            FuncSpec::Unset | FuncSpec::Constant(_) => 0,
            FuncSpec::Linear { terms, .. } => terms.len(),
            FuncSpec::Quadratic { entries, linear } => entries.len() * 2 + linear.as_ref().map(|l| l.0.len()).unwrap_or(0),
            FuncSpec::Polynomial { terms } => terms.iter().map(|t| t.0.len()).sum(),
        }
    }
    /// set the id at position k to `to`
    pub fn set_id_at(&mut self, k: usize, to: u64) {
        match self {
            FuncSpec::Unset | FuncSpec::Constant(_) => {}
            FuncSpec::Linear { terms, .. } => terms[k].0 = to,
            FuncSpec::Quadratic { entries, linear } => {
                if k < entries.len() * 2 {
                    if k % 2 == 0 {
                        entries[k / 2].0 = to
                    } else {
                        entries[k / 2].1 = to
                    }
                } else if let Some((t, _)) = linear {
                    t[k - entries.len() * 2].0 = to;
                }
            }
            FuncSpec::Polynomial { terms } => {
                let mut k = k;
                for (ids, _) in terms.iter_mut() {
                    if k < ids.len() {
                        ids[k] = to;
                        return;
                    }
                    k -= ids.len();
                }
            }
        }
    }
}

#[derive(Clone, Debug, Serialize, Deserialize, PartialEq)]
pub struct VarSpec {
    pub id: u64,
    /// v1 kind number (1 binary, 2 integer, 3 continuous, 4 semi-integer, 5 semi-continuous, 0 unspecified)
    pub kind: i32,
    pub bound: Option<(F, F)>,
    pub name: Option<String>,
    pub substituted: Option<F>,
    /// subscripts, parameters, description (metadata that no operation may touch)
    #[serde(default)]
    pub meta: Option<(Vec<i64>, Vec<(String, String)>, Option<String>)>,
}
#[derive(Clone, Debug, Serialize, Deserialize, PartialEq)]
pub struct ConSpec {
    pub id: u64,
    /// v1 equality number (1 '= 0', 2 '<= 0', 0 unspecified)
    pub equality: i32,
    pub function: Option<FuncSpec>,
    pub name: Option<String>,
    pub subscripts: Vec<i64>,
    pub parameters: Vec<(String, String)>,
    pub description: Option<String>,
}
#[derive(Clone, Debug, Serialize, Deserialize, PartialEq)]
pub struct RemovedSpec {
    pub constraint: Option<ConSpec>,
    pub reason: String,
    pub parameters: Vec<(String, String)>,
}
#[derive(Clone, Debug, Serialize, Deserialize, PartialEq, Default)]
pub struct HintSpec {
    /// (constraint id, variable ids)
    pub one_hot: Vec<(u64, Vec<u64>)>,
    /// (binary constraint id, big-M constraint ids, variable ids)
    pub sos1: Vec<(u64, Vec<u64>, Vec<u64>)>,
}
#[derive(Clone, Debug, Serialize, Deserialize, PartialEq)]
pub struct InstSpec {
    pub vars: Vec<VarSpec>,
    pub objective: Option<FuncSpec>,
    pub constraints: Vec<ConSpec>,
    pub removed: Vec<RemovedSpec>,
    /// dependent variable id -> defining function, inserted into the map in this order
    pub deps: Vec<(u64, FuncSpec)>,
    pub sense: i32,
    pub hints: Option<HintSpec>,
    /// instance description (name, description, authors, created_by) and instance parameters
    #[serde(default)]
    pub description: Option<(Option<String>, Option<String>, Vec<String>, Option<String>)>,
    #[serde(default)]
    pub parameters: Option<Vec<(u64, F)>>,
}

impl ConSpec {
    pub fn to_v1(&self) -> v1::Constraint {
        let mut c = msg::constraint(self.id, self.equality, self.function.as_ref().map(|f| f.to_v1()));
        c.name = self.name.clone();
        c.subscripts = self.subscripts.clone();
        c.parameters = self.parameters.iter().cloned().collect();
        c.description = self.description.clone();
        c
    }
}
impl RemovedSpec {
    pub fn to_v1(&self) -> v1::RemovedConstraint {
        let mut r = v1::RemovedConstraint::default();
        r.constraint = self.constraint.as_ref().map(|c| c.to_v1());
        r.removed_reason = self.reason.clone();
        r.removed_reason_parameters = self.parameters.iter().cloned().collect();
        r
    }
}
impl VarSpec {
    pub fn to_v1(&self) -> v1::DecisionVariable {
        let mut d = msg::dvar(self.id, self.kind, self.bound.map(|(l, u)| (l.0, u.0)));
        d.name = self.name.clone();
        d.substituted_value = self.substituted.map(|f| f.0);
        if let Some((subs, params, desc)) = &self.meta {
            d.subscripts = subs.clone();
            d.parameters = params.iter().cloned().collect();
            d.description = desc.clone();
        }
        d
    }
}
impl InstSpec {
    pub fn to_v1(&self) -> v1::Instance {
        let mut i = v1::Instance::default();
        i.decision_variables = self.vars.iter().map(|v| v.to_v1()).collect();
        i.objective = self.objective.as_ref().map(|f| f.to_v1());
        i.constraints = self.constraints.iter().map(|c| c.to_v1()).collect();
        i.removed_constraints = self.removed.iter().map(|c| c.to_v1()).collect();
        for (k, f) in &self.deps {
            i.decision_variable_dependency.insert(*k, f.to_v1());
        }
        i.sense = self.sense;
        if let Some((name, desc, authors, by)) = &self.description {
            let mut d = v1::instance::Description::default();
            d.name = name.clone();
            d.description = desc.clone();
            d.authors = authors.clone();
            d.created_by = by.clone();
            i.description = Some(d);
        }
        if let Some(ps) = &self.parameters {
            let mut p = v1::Parameters::default();
            for (k, v) in ps {
                p.entries.insert(*k, v.0);
            }
            i.parameters = Some(p);
        }
        if let Some(h) = &self.hints {
            let mut hints = v1::ConstraintHints::default();
            for (c, vs) in &h.one_hot {
                let mut o = v1::OneHot::default();
                o.constraint_id = *c;
                o.decision_variables = vs.clone();
                hints.one_hot_constraints.push(o);
            }
            for (b, ms, vs) in &h.sos1 {
                let mut o = v1::Sos1::default();
                o.binary_constraint_id = *b;
                o.big_m_constraint_ids = ms.clone();
                o.decision_variables = vs.clone();
                hints.sos1_constraints.push(o);
            }
            i.constraint_hints = Some(hints);
        }
        i
    }
    pub fn var_ids(&self) -> Vec<u64> {
        self.vars.iter().map(|v| v.id).collect()
    }
    pub fn dep_ids(&self) -> BTreeSet<u64> {
        self.deps.iter().map(|d| d.0).collect()
    }
}

// ---------------------------------------------------------------------------------------------------------
// generator

const HALVES: [f64; 9] = [-2.0, -1.5, -1.0, -0.5, 0.5, 1.0, 1.5, 2.0, 0.0];

fn coef(rng: &mut Rng, allow_zero: bool) -> F {
    loop {
        let c = *rng.pick(&HALVES);
        if c != 0.0 {
            return F(c);
        }
        if allow_zero && rng.chance(1, 2) {
            // an explicit zero, of either sign
            return F(if rng.chance(1, 3) { -0.0 } else { 0.0 });
        }
        if allow_zero {
            continue;
        }
    }
}

/// A function of degree <= `max_degree` over `ids` in an arbitrary wire-legal representation: unsorted and
/// repeated terms, lower-triangular / non-symmetric quadratic entries, explicit zeros, absent linear part,
/// unset oneof.
pub fn gen_func(rng: &mut Rng, ids: &[u64], max_degree: usize) -> FuncSpec {
    let f = gen_func_plain(rng, ids, max_degree);
    // now and then the same function in a message variant of higher degree than it needs (a constant or linear
    // function carried by a Quadratic with an empty matrix or by a Polynomial), as far as max_degree allows
    if !rng.chance(1, 6) {
        return f;
    }
    // the constant goes in as two constant monomials (c - 0.5 and 0.5), one in the middle and one at the end
    let as_poly = |terms: &[(u64, F)], constant: F| -> FuncSpec {
        let mut t: Vec<(Vec<u64>, F)> = terms.iter().map(|(i, c)| (vec![*i], *c)).collect();
        t.insert(t.len() / 2, (vec![], F(constant.0 - 0.5)));
        t.push((vec![], F(0.5)));
        FuncSpec::Polynomial { terms: t }
    };
    match f {
        FuncSpec::Constant(c) if max_degree >= 2 => {
            if rng.chance(1, 2) {
                as_poly(&[], c)
            } else {
                FuncSpec::Quadratic { entries: vec![], linear: Some((vec![], c)) }
            }
        }
        FuncSpec::Linear { terms, constant } if max_degree >= 2 => {
            if rng.chance(1, 2) {
                as_poly(&terms, constant)
            } else {
                FuncSpec::Quadratic { entries: vec![], linear: Some((terms, constant)) }
            }
        }
        other => other,
    }
}

fn gen_func_plain(rng: &mut Rng, ids: &[u64], max_degree: usize) -> FuncSpec {
    let pick = |rng: &mut Rng| ids[rng.usize(ids.len())];
    let d = if ids.is_empty() { 0 } else { rng.usize(max_degree + 1) };
    let lin_terms = |rng: &mut Rng, n: usize| -> Vec<(u64, F)> { (0..n).map(|_| (pick(rng), coef(rng, true))).collect() };
    match d {
        0 => {
            if rng.chance(1, 8) {
                FuncSpec::Unset
            } else if rng.chance(1, 4) {
                FuncSpec::Linear { terms: vec![], constant: coef(rng, true) }
            } else {
                FuncSpec::Constant(coef(rng, true))
            }
        }
        1 => {
            let n = 1 + rng.usize(4);
            FuncSpec::Linear { terms: lin_terms(rng, n), constant: coef(rng, true) }
        }
        2 => {
            let n = 1 + rng.usize(4);
            // the schema forbids two entries at the same (row, column) location; (i,j) next to (j,i) is fine
            let mut entries: Vec<(u64, u64, F)> = vec![];
            for _ in 0..n {
                let e = (pick(rng), pick(rng), coef(rng, true));
                if !entries.iter().any(|o| o.0 == e.0 && o.1 == e.1) {
                    entries.push(e);
                }
            }
            let linear = if rng.chance(1, 3) {
                None
            } else {
                let n = rng.usize(3);
                Some((lin_terms(rng, n), coef(rng, true)))
            };
            FuncSpec::Quadratic { entries, linear }
        }
        _ => {
            let n = 1 + rng.usize(4);
            let terms = (0..n)
                .map(|_| {
                    let k = rng.usize(d + 1);
                    ((0..k).map(|_| pick(rng)).collect::<Vec<u64>>(), coef(rng, true))
                })
                .collect();
            FuncSpec::Polynomial { terms }
        }
    }
}

fn gen_meta(rng: &mut Rng) -> (Option<String>, Vec<i64>, Vec<(String, String)>, Option<String>) {
    let name = if rng.chance(1, 2) { Some((*rng.pick(&["c", "balance", "cap[1]", ""])).to_string()) } else { None };
    let subs = (0..rng.below(3)).map(|_| rng.range(-2, 5)).collect();
    let mut params = vec![];
    if rng.chance(1, 3) {
        params.push(("k".to_string(), (*rng.pick(&["v", "", "w w"])).to_string()));
        if rng.chance(1, 2) {
            params.push(("k2".to_string(), "x".to_string()));
        }
    }
    let desc = if rng.chance(1, 4) { Some("text".to_string()) } else { None };
    (name, subs, params, desc)
}

pub fn gen_con(rng: &mut Rng, id: u64, ids: &[u64], max_degree: usize) -> ConSpec {
    let (name, subscripts, parameters, description) = gen_meta(rng);
    let function = if rng.chance(1, 12) {
        None
    } else if rng.chance(1, 8) {
        // a value right next to the feasibility tolerance (|f| < 1e-6): 2^-24 = 6.0e-8, 2^-21 = 4.8e-7 and
        // 2^-20 = 9.5e-7 hold, 2^-19 = 1.9e-6 does not; all are exact in the reference model
        let tiny = *rng.pick(&[-24i32, -21, -20, -19]);
        let v = 2f64.powi(tiny) * if rng.chance(1, 3) { -1.0 } else { 1.0 };
        Some(if rng.chance(1, 2) { FuncSpec::Constant(F(v)) } else { FuncSpec::Linear { terms: vec![], constant: F(v) } })
    } else if !ids.is_empty() && rng.chance(1, 8) {
        // x - C with a large constant C: at x = C + 2^-18 the value is 3.8e-6 (does not hold), at C + 2^-21 it is
        // 4.8e-7 (holds)
        let x = ids[rng.usize(ids.len())];
        Some(FuncSpec::Linear { terms: vec![(x, F(if rng.chance(1, 4) { -1.0 } else { 1.0 }))], constant: F(-BIG_CONST) })
    } else {
        Some(gen_func(rng, ids, max_degree))
    };
    ConSpec { id, equality: 1 + rng.below(2) as i32, function, name, subscripts, parameters, description }
}

pub struct GenOpts {
    pub max_vars: usize,
    pub max_cons: usize,
    pub max_removed: usize,
    pub max_degree: usize,
    pub deps: bool,
    pub hints: bool,
}

/// A valid instance: unique IDs, every used ID defined, bounds that contain at least one small dyadic value.
pub fn gen_instance(rng: &mut Rng, o: &GenOpts) -> InstSpec {
    // IDs around the widths a careless index type would have, next to the small ones; now and then more variables
    // than the statements' small cases
    let pool: [u64; 19] = [0, 1, 2, 3, 5, 8, 13, 100, 4294967297, u64::MAX, 6, 12, 255, 256, 65535, 1_000_000, 1 << 31, (1 << 53) + 1, 1 << 63];
    let mut ids = pool.to_vec();
    rng.shuffle(&mut ids);
    let nv = if rng.chance(1, 30) { (o.max_vars + 1 + rng.usize(2 * o.max_vars)).min(ids.len()) } else { 1 + rng.usize(o.max_vars) };
    ids.truncate(nv);
    let vars: Vec<VarSpec> = ids
        .iter()
        .map(|id| {
            let kind = *rng.pick(&[1, 2, 3, 3]);
            let bound = match kind {
                1 => *rng.pick(&[None, Some((0.0, 1.0)), Some((0.0, 1.0))]),
                _ => *rng.pick(&[None, Some((-2.0, 2.0)), Some((0.0, 1.0)), Some((f64::NEG_INFINITY, f64::INFINITY)), Some((0.0, f64::INFINITY)), Some((-3.0, 2.5)), Some((f64::NEG_INFINITY, 1.0)), Some((0.0, -0.0)), Some((1.0, 1.0)), Some((-0.0, 2.0))]),
            };
            let meta = if rng.chance(1, 3) {
                let (_, subs, params, desc) = gen_meta(rng);
                Some((subs, params, desc))
            } else {
                None
            };
            VarSpec { id: *id, kind, bound: bound.map(|(l, u)| (F(l), F(u))), name: if rng.chance(1, 3) { Some(format!("x{}", id)) } else { None }, substituted: None, meta }
        })
        .collect();
    // dependent variables are defined in terms of the others and are not used elsewhere
    let mut deps: Vec<(u64, FuncSpec)> = vec![];
    let mut free_ids = ids.clone();
    if o.deps && nv >= 2 && rng.chance(1, 3) {
        let nd = 1 + rng.usize((nv - 1).min(2));
        let dep_ids: Vec<u64> = free_ids.drain(..nd).collect();
        for d in dep_ids {
            let f = gen_func(rng, &free_ids, o.max_degree.min(2));
            deps.push((d, f));
        }
    }
    let objective = if rng.chance(1, 12) { None } else { Some(gen_func(rng, &free_ids, o.max_degree)) };
    let mut cid_pool: Vec<u64> = vec![0, 1, 2, 3, 4, 7, 10, 99, 4294967296, u64::MAX];
    rng.shuffle(&mut cid_pool);
    let nc = rng.usize(o.max_cons + 1);
    let nr = rng.usize(o.max_removed + 1);
    let constraints: Vec<ConSpec> = (0..nc).map(|k| gen_con(rng, cid_pool[k], &free_ids, o.max_degree)).collect();
    let removed: Vec<RemovedSpec> = (0..nr)
        .map(|k| RemovedSpec {
            constraint: Some(gen_con(rng, cid_pool[nc + k], &free_ids, o.max_degree)),
            reason: (*rng.pick(&["relaxed", "penalty_method", ""])).to_string(),
            parameters: if rng.chance(1, 2) { vec![("why".into(), "test".into())] } else { vec![] },
        })
        .collect();
    let hints = if o.hints && rng.chance(1, 3) && !constraints.is_empty() {
        let mut h = HintSpec::default();
        let mut vs = ids.clone();
        rng.shuffle(&mut vs);
        vs.truncate(1 + rng.usize(vs.len()));
        h.one_hot.push((constraints[0].id, vs.clone()));
        // the same constraint may be named by a second hint with other content
        if rng.chance(1, 3) {
            let mut vs2 = ids.clone();
            rng.shuffle(&mut vs2);
            vs2.truncate(1 + rng.usize(vs2.len()));
            h.one_hot.push((constraints[0].id, vs2));
        }
        if rng.chance(1, 2) {
            let ms: Vec<u64> = constraints.iter().skip(1).map(|c| c.id).collect();
            h.sos1.push((constraints[0].id, ms.clone(), vs));
            if rng.chance(1, 3) {
                h.sos1.push((constraints[0].id, ms, ids.iter().take(1).copied().collect()));
            }
        }
        Some(h)
    } else {
        None
    };
    // a variable that was fixed earlier (its value is recorded, no function mentions it any more)
    let mut vars = vars;
    if rng.chance(1, 5) {
        vars.push(VarSpec { id: 400, kind: 3, bound: Some((F(-2.0), F(2.0))), name: None, substituted: Some(F(rng.half(2, false))), meta: None });
    }
    let description = if rng.chance(1, 3) { Some((Some("problem".to_string()), if rng.chance(1, 2) { Some("text, with a comma".to_string()) } else { None }, vec!["A".to_string(); rng.usize(3)], Some("sim".to_string()))) } else { None };
    let parameters = if rng.chance(1, 4) { Some(vec![(7, F(1.5)), (u64::MAX, F(-2.0))]) } else { None };
    InstSpec { vars, objective, constraints, removed, deps, sense: 1 + rng.below(2) as i32, hints, description, parameters }
}

/// an in-bound value for a variable, a multiple of 1/2 in [-2, 2] (integers for integer kinds, 0/1 for binaries)
pub const BIG_CONST: f64 = 131072.5;

pub fn gen_value(rng: &mut Rng, v: &VarSpec) -> F {
    let (lo, hi) = match (v.bound, v.kind) {
        (Some((l, u)), _) => (l.0, u.0),
        (None, 1) => (0.0, 1.0),
        (None, _) => (f64::NEG_INFINITY, f64::INFINITY),
    };
    let cands: Vec<f64> = (-4..=4)
        .map(|k| k as f64 / 2.0)
        .filter(|x| *x >= lo && *x <= hi)
        .filter(|x| match v.kind {
            1 => *x == 0.0 || *x == 1.0,
            2 | 4 => *x == x.trunc(),
            _ => true,
        })
        .collect();
    F(*rng.pick(&cands))
}

/// total in-bound assignment of the independent variables
pub fn gen_state(rng: &mut Rng, inst: &InstSpec) -> Vec<(u64, F)> {
    let deps = inst.dep_ids();
    // variables that occur in linear terms only (and in no dependency) may take a value of realistic magnitude, a
    // hair beside the large constant of gen_con: the feasibility tolerance is absolute, whatever the size of the
    // numbers involved (products of such values would leave the exact range of the reference arithmetic)
    let mut nonlinear: std::collections::BTreeSet<u64> = Default::default();
    let mut fs: Vec<&FuncSpec> = vec![];
    fs.extend(inst.objective.iter());
    fs.extend(inst.constraints.iter().filter_map(|c| c.function.as_ref()));
    fs.extend(inst.removed.iter().filter_map(|r| r.constraint.as_ref()).filter_map(|c| c.function.as_ref()));
    // judged on the representation as given: terms of degree two or more count even when they cancel (the SDK adds
    // them up in floating point, where a huge product swallows the low bits of a large value)
    for f in fs {
        match f {
            FuncSpec::Quadratic { entries, .. } => {
                for (i, j, _) in entries {
                    nonlinear.insert(*i);
                    nonlinear.insert(*j);
                }
            }
            FuncSpec::Polynomial { terms } => {
                for (m, _) in terms {
                    if m.len() >= 2 {
                        nonlinear.extend(m.iter().copied());
                    }
                }
            }
            _ => {}
        }
    }
    for (_, f) in &inst.deps {
        nonlinear.extend(f.poly().0.iter().flat_map(|(m, _)| m.iter().copied()));
    }
    inst.vars
        .iter()
        .filter(|v| !deps.contains(&v.id) && v.substituted.is_none())
        .map(|v| {
            let (lo, hi) = match (v.bound, v.kind) {
                (Some((l, u)), _) => (l.0, u.0),
                (None, 1) => (0.0, 1.0),
                (None, _) => (f64::NEG_INFINITY, f64::INFINITY),
            };
            if v.kind == 3 && !nonlinear.contains(&v.id) && lo <= -BIG_CONST && hi >= BIG_CONST + 1.0 && rng.chance(1, 4) {
                let off = *rng.pick(&[0.0, 2f64.powi(-18), 2f64.powi(-21), -2f64.powi(-18), 2f64.powi(-16)]);
                return (v.id, F(BIG_CONST + off));
            }
            (v.id, gen_value(rng, v))
        })
        .collect()
}

pub fn assign_of(state: &[(u64, F)]) -> Assign {
    state.iter().map(|(k, v)| (*k, fx(v.0).expect("dyadic state"))).collect()
}
pub fn v1_state(state: &[(u64, F)]) -> v1::State {
    msg::state(&state.iter().map(|(k, v)| (*k, v.0)).collect::<Vec<_>>())
}

// ---------------------------------------------------------------------------------------------------------
// Problem model: reference evaluation

#[derive(Clone, Debug, PartialEq)]
pub struct RefCon {
    pub id: u64,
    pub value: Fx,
    pub holds: bool,
    pub removed: bool,
}
#[derive(Clone, Debug)]
pub struct RefSolution {
    pub objective: Fx,
    pub constraints: Vec<RefCon>,
    pub feasible: bool,
    pub feasible_relaxed: bool,
    /// reported state: given values, fixed values, dependent values, bound-nearest-to-zero for the rest
    pub state: BTreeMap<u64, Fx>,
}

fn holds(equality: i32, v: Fx) -> Result<bool, String> {
    // |f| < 1e-6 for equalities, f < 1e-6 for inequalities; reference values are multiples of 2^-40, far from 1e-6
    // unless they are exactly zero... a multiple of 2^-40 (9e-13) below 1e-6 is possible in principle, so compare in f64
    let f = v as f64 / (1u128 << super::poly::SCALE_BITS) as f64;
    match equality {
        1 => Ok(f.abs() < 1e-6),
        2 => Ok(f < 1e-6),
        e => Err(format!("equality {e}")),
    }
}

/// Evaluate the problem described by the message at `assign` (which must give every independent variable).
pub fn ref_evaluate(inst: &v1::Instance, assign: &Assign) -> Result<RefSolution, String> {
    let mut state = assign.clone();
    for d in &inst.decision_variables {
        if let Some(v) = d.substituted_value {
            state.insert(d.id, fx(v)?);
        }
    }
    // dependent variables through chains
    let deps: Vec<(u64, Poly)> = inst.decision_variable_dependency.iter().map(|(k, f)| Ok((*k, Poly::from_function(Some(f))?))).collect::<Result<_, String>>()?;
    let mut pending: Vec<&(u64, Poly)> = deps.iter().collect();
    pending.sort_by_key(|p| p.0);
    loop {
        let before = pending.len();
        let mut rest = vec![];
        for p in pending {
            match p.1.eval(&state)? {
                Ok(v) => {
                    state.insert(p.0, v);
                }
                Err(_) => rest.push(p),
            }
        }
        pending = rest;
        if pending.is_empty() {
            break;
        }
        if pending.len() == before {
            return Err("dependencies cannot be evaluated (cycle or undefined variable)".into());
        }
    }
    let ev = |f: Option<&v1::Function>| -> Result<Fx, String> { Poly::from_function(f)?.eval(&state)?.map_err(|id| format!("variable {id} has no value")) };
    let objective = ev(inst.objective.as_ref())?;
    let mut constraints = vec![];
    let mut feasible_relaxed = true;
    for c in &inst.constraints {
        let v = ev(c.function.as_ref())?;
        let h = holds(c.equality, v)?;
        feasible_relaxed &= h;
        constraints.push(RefCon { id: c.id, value: v, holds: h, removed: false });
    }
    let mut feasible = feasible_relaxed;
    for r in &inst.removed_constraints {
        let c = r.constraint.as_ref().ok_or("removed constraint without constraint")?;
        let v = ev(c.function.as_ref())?;
        let h = holds(c.equality, v)?;
        feasible &= h;
        constraints.push(RefCon { id: c.id, value: v, holds: h, removed: true });
    }
    for d in &inst.decision_variables {
        if let std::collections::btree_map::Entry::Vacant(e) = state.entry(d.id) {
            let (lo, hi) = match (&d.bound, d.kind) {
                (Some(b), _) => (b.lower, b.upper),
                (None, 1) => (0.0, 1.0),
                (None, _) => (f64::NEG_INFINITY, f64::INFINITY),
            };
            let z = if lo >= 0.0 {
                lo
            } else if hi <= 0.0 {
                hi
            } else {
                0.0
            };
            e.insert(fx(z)?);
        }
    }
    Ok(RefSolution { objective, constraints, feasible, feasible_relaxed, state })
}

/// Compare an SDK solution with the reference, exactly. Returns (class, detail) pairs.
pub fn diff_solution(r: &RefSolution, s: &v1::Solution) -> Result<Vec<(String, String)>, String> {
    let mut out = vec![];
    let fo = fx_f64(r.objective)?;
    if s.objective != fo {
        out.push(("objective".into(), format!("expected {} got {}", fo, s.objective)));
    }
    if s.evaluated_constraints.len() != r.constraints.len() {
        out.push(("constraint-count".into(), format!("expected {} evaluated constraints got {}", r.constraints.len(), s.evaluated_constraints.len())));
    }
    let mut seen = BTreeSet::new();
    for e in &s.evaluated_constraints {
        if !seen.insert(e.id) {
            out.push(("constraint-duplicate".into(), format!("constraint {} reported twice", e.id)));
            continue;
        }
        match r.constraints.iter().find(|c| c.id == e.id) {
            None => out.push(("constraint-unknown".into(), format!("constraint {} is not in the problem", e.id))),
            Some(c) => {
                let v = fx_f64(c.value)?;
                if e.evaluated_value != v {
                    out.push(("constraint-value".into(), format!("constraint {}: expected {} got {}", e.id, v, e.evaluated_value)));
                }
                if c.removed != e.removed_reason.is_some() {
                    out.push(("constraint-removed-flag".into(), format!("constraint {}: removed={} but removed_reason={:?}", e.id, c.removed, e.removed_reason)));
                }
            }
        }
    }
    if s.feasible != r.feasible {
        out.push(("feasible".into(), format!("expected feasible={} got {}", r.feasible, s.feasible)));
    }
    if s.feasible_relaxed != Some(r.feasible_relaxed) {
        out.push(("feasible-relaxed".into(), format!("expected feasible_relaxed={} got {:?}", r.feasible_relaxed, s.feasible_relaxed)));
    }
    match &s.state {
        None => out.push(("state".into(), "solution has no state".into())),
        Some(st) => {
            for (k, v) in &r.state {
                let v = fx_f64(*v)?;
                match st.entries.get(k) {
                    Some(g) if *g == v => {}
                    g => out.push(("state".into(), format!("variable {}: expected {} got {:?}", k, v, g))),
                }
            }
            for k in st.entries.keys() {
                if !r.state.contains_key(k) {
                    out.push(("state".into(), format!("reported state has a value for {} which is neither given, fixed, dependent nor a defined variable", k)));
                }
            }
        }
    }
    Ok(out)
}

/// Force the iteration order of a map: rebuild it under successive `RandomState`s until it iterates in exactly
/// the wanted key order. An equal map in a different order is a legal state of the same message, so this is a
/// pure scheduling choice. Returns the number of rebuilds.
pub fn force_order<V: Clone>(entries: &[(u64, V)], target: &[u64]) -> (std::collections::HashMap<u64, V>, u64) {
    let mut tries = 0;
    loop {
        tries += 1;
        let mut m = std::collections::HashMap::with_hasher(std::collections::hash_map::RandomState::new());
        for (k, v) in entries {
            m.insert(*k, v.clone());
        }
        if m.keys().copied().eq(target.iter().copied()) {
            return (m, tries);
        }
        if tries > 200_000 {
            panic!("cannot force the map order {:?}", target);
        }
    }
}

/// k-th permutation (Lehmer code) of the ids
pub fn nth_permutation(ids: &[u64], mut k: u64) -> Vec<u64> {
    let mut pool = ids.to_vec();
    let mut out = vec![];
    let mut f: Vec<u64> = vec![1];
    for i in 1..=pool.len() as u64 {
        f.push(f[i as usize - 1] * i);
    }
    for i in (0..pool.len()).rev() {
        let q = (k / f[i]) as usize;
        k %= f[i];
        out.push(pool.remove(q));
    }
    out
}
pub fn factorial(n: usize) -> u64 {
    (1..=n as u64).product()
}

/// every variable id occurring in a function message (also under a zero coefficient)
pub fn ids_of(f: Option<&v1::Function>) -> BTreeSet<u64> {
    use v1::function::Function as E;
    let mut s = BTreeSet::new();
    let Some(f) = f else { return s };
    match &f.function {
        None | Some(E::Constant(_)) => {}
        Some(E::Linear(l)) => s.extend(l.terms.iter().map(|t| t.id)),
        Some(E::Quadratic(q)) => {
            s.extend(q.rows.iter().copied());
            s.extend(q.columns.iter().copied());
            if let Some(l) = &q.linear {
                s.extend(l.terms.iter().map(|t| t.id));
            }
        }
        Some(E::Polynomial(p)) => {
            for m in &p.terms {
                s.extend(m.ids.iter().copied());
            }
        }
        #[allow(unreachable_patterns)]
        _ => {}
    }
    s
}

/// all functions of an instance with a label: objective, constraints, removed constraints, dependencies
pub fn functions_of(inst: &v1::Instance) -> Vec<(String, Option<v1::Function>)> {
    let mut v = vec![("objective".to_string(), inst.objective.clone())];
    for c in &inst.constraints {
        v.push((format!("constraint {}", c.id), c.function.clone()));
    }
    for r in &inst.removed_constraints {
        if let Some(c) = &r.constraint {
            v.push((format!("removed constraint {}", c.id), c.function.clone()));
        }
    }
    let mut deps: Vec<_> = inst.decision_variable_dependency.iter().collect();
    deps.sort_by_key(|d| *d.0);
    for (k, f) in deps {
        v.push((format!("dependency of {}", k), Some(f.clone())));
    }
    v
}


/// What an operation on functions / constraint lists must leave alone: description, parameters, hints, sense
/// and every decision variable except for its recorded value. Returns the names of the parts that changed.
pub fn untouched_diff(before: &v1::Instance, after: &v1::Instance, variables_too: bool, whole_instance: bool) -> Vec<&'static str> {
    let mut out = vec![];
    if whole_instance {
        if before.description != after.description {
            out.push("description");
        }
        if before.parameters != after.parameters {
            out.push("parameters");
        }
        // constraint hints are deliberately not part of this: whether a successful relax may drop a hint that
        // names the relaxed constraint is a design decision the statements do not settle
        if before.sense != after.sense {
            out.push("sense");
        }
    }
    if variables_too {
        if before.decision_variables.len() != after.decision_variables.len() {
            out.push("decision_variables");
        } else {
            for b in before.decision_variables.iter() {
                let Some(a) = after.decision_variables.iter().find(|a| a.id == b.id) else {
                    out.push("decision_variables");
                    break;
                };
                let mut b2 = b.clone();
                b2.substituted_value = a.substituted_value;
                if &b2 != a {
                    out.push("decision_variables");
                    break;
                }
            }
        }
    }
    out
}
