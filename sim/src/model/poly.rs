//! Exact polynomial reference model: coefficients and values are fixed-point integers (value * 2^SCALE_BITS in an
//! i128). Workloads use small dyadic rationals, so every operation is exact; the model checks its own exactness
//! (a lost low bit is an `Err`, reported as a harness error, never as a verdict).

use ommx::v1;
use std::collections::{BTreeMap, BTreeSet};

pub const SCALE_BITS: u32 = 40;
pub type Fx = i128;
const ONE: Fx = 1 << SCALE_BITS;

pub fn fx(v: f64) -> Result<Fx, String> {
    if !v.is_finite() {
        return Err(format!("{v} is not finite"));
    }
    let s = v * (ONE as f64);
    if s != s.trunc() || s.abs() >= 1e37 {
        return Err(format!("{v:?} is not a multiple of 2^-{SCALE_BITS} (not exactly representable in the reference model)"));
    }
    Ok(s as i128)
}
pub fn fx_mul(a: Fx, b: Fx) -> Result<Fx, String> {
    let p = a.checked_mul(b).ok_or("overflow in the reference model")?;
    if p & (ONE - 1) != 0 {
        return Err("reference model lost precision in a product".into());
    }
    Ok(p >> SCALE_BITS)
}
/// exact back-conversion (the magnitude must fit a double's mantissa)
pub fn fx_f64(x: Fx) -> Result<f64, String> {
    let v = x as f64;
    if v as i128 != x {
        return Err("reference value does not fit a double exactly".into());
    }
    Ok(v / ONE as f64)
}
pub fn fx_show(x: Fx) -> String {
    format!("{}", x as f64 / ONE as f64)
}

/// Polynomial: sorted id multiset -> coefficient. Zero coefficients are never stored.
#[derive(Clone, Debug, PartialEq, Eq, Default)]
pub struct Poly(pub BTreeMap<Vec<u64>, Fx>);

pub type Assign = BTreeMap<u64, Fx>;

impl Poly {
    pub fn constant(c: Fx) -> Poly {
        let mut p = Poly::default();
        p.add_term(vec![], c);
        p
    }
    pub fn var(id: u64) -> Poly {
        let mut p = Poly::default();
        p.add_term(vec![id], ONE);
        p
    }
    pub fn add_term(&mut self, mut ids: Vec<u64>, c: Fx) {
        if c == 0 {
            return;
        }
        ids.sort();
        let e = self.0.entry(ids.clone()).or_insert(0);
        *e += c;
        if *e == 0 {
            self.0.remove(&ids);
        }
    }
    pub fn add(&self, o: &Poly) -> Poly {
        let mut r = self.clone();
        for (k, c) in &o.0 {
            r.add_term(k.clone(), *c);
        }
        r
    }
    pub fn neg(&self) -> Poly {
        Poly(self.0.iter().map(|(k, c)| (k.clone(), -*c)).collect())
    }
    pub fn mul(&self, o: &Poly) -> Result<Poly, String> {
        let mut r = Poly::default();
        for (ka, ca) in &self.0 {
            for (kb, cb) in &o.0 {
                let mut k = ka.clone();
                k.extend_from_slice(kb);
                r.add_term(k, fx_mul(*ca, *cb)?);
            }
        }
        Ok(r)
    }
    pub fn degree(&self) -> usize {
        self.0.keys().map(|k| k.len()).max().unwrap_or(0)
    }
    pub fn vars(&self) -> BTreeSet<u64> {
        self.0.keys().flat_map(|k| k.iter().copied()).collect()
    }
    /// Err(id) when a variable has no value
    pub fn eval(&self, a: &Assign) -> Result<Result<Fx, u64>, String> {
        let mut sum: Fx = 0;
        for (k, c) in &self.0 {
            let mut v = *c;
            for id in k {
                match a.get(id) {
                    None => return Ok(Err(*id)),
                    Some(x) => v = fx_mul(v, *x)?,
                }
            }
            sum += v;
        }
        Ok(Ok(sum))
    }
    /// fix the variables of `a`, keep the others
    pub fn partial(&self, a: &Assign) -> Result<Poly, String> {
        let mut r = Poly::default();
        for (k, c) in &self.0 {
            let mut v = *c;
            let mut rest = vec![];
            for id in k {
                match a.get(id) {
                    None => rest.push(*id),
                    Some(x) => v = fx_mul(v, *x)?,
                }
            }
            r.add_term(rest, v);
        }
        Ok(r)
    }
    /// simultaneous substitution id -> polynomial
    pub fn substitute(&self, m: &BTreeMap<u64, Poly>) -> Result<Poly, String> {
        let mut r = Poly::default();
        for (k, c) in &self.0 {
            let mut t = Poly::constant(*c);
            for id in k {
                t = match m.get(id) {
                    Some(p) => t.mul(p)?,
                    None => t.mul(&Poly::var(*id))?,
                };
            }
            r = r.add(&t);
        }
        Ok(r)
    }
    pub fn show(&self) -> String {
        if self.0.is_empty() {
            return "0".into();
        }
        let mut s = String::new();
        for (k, c) in &self.0 {
            s.push_str(&format!("{:+}", *c as f64 / ONE as f64));
            for id in k {
                s.push_str(&format!("*x{}", id));
            }
            s.push(' ');
        }
        s.trim_end().to_string()
    }

    pub fn from_linear(l: &v1::Linear) -> Result<Poly, String> {
        let mut p = Poly::default();
        p.add_term(vec![], fx(l.constant)?);
        for t in &l.terms {
            p.add_term(vec![t.id], fx(t.coefficient)?);
        }
        Ok(p)
    }
    pub fn from_quadratic(q: &v1::Quadratic) -> Result<Poly, String> {
        if q.rows.len() != q.columns.len() || q.rows.len() != q.values.len() {
            return Err("quadratic message with rows/columns/values of different lengths".into());
        }
        let mut p = match &q.linear {
            Some(l) => Poly::from_linear(l)?,
            None => Poly::default(),
        };
        for i in 0..q.rows.len() {
            p.add_term(vec![q.rows[i], q.columns[i]], fx(q.values[i])?);
        }
        Ok(p)
    }
    pub fn from_polynomial(q: &v1::Polynomial) -> Result<Poly, String> {
        let mut p = Poly::default();
        for m in &q.terms {
            p.add_term(m.ids.clone(), fx(m.coefficient)?);
        }
        Ok(p)
    }
    /// An unset oneof / absent function is the zero function.
    pub fn from_function(f: Option<&v1::Function>) -> Result<Poly, String> {
        use v1::function::Function as E;
        let Some(f) = f else { return Ok(Poly::default()) };
        match &f.function {
            None => Ok(Poly::default()),
            Some(E::Constant(c)) => Ok(Poly::constant(fx(*c)?)),
            Some(E::Linear(l)) => Poly::from_linear(l),
            Some(E::Quadratic(q)) => Poly::from_quadratic(q),
            Some(E::Polynomial(p)) => Poly::from_polynomial(p),
            #[allow(unreachable_patterns)]
            _ => Err("unknown function variant".into()),
        }
    }
}
