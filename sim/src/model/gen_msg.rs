//! Seeded generators of (valid) messages with content in every corner: maps, optional fields, nested
//! functions of every variant, removed constraints, dependencies, hints, parameters.
use super::msg;
use crate::rng::Rng;
use ommx::v1;

pub fn gen_string(rng: &mut Rng) -> String {
    (*rng.pick(&["", "x", "name with spaces", "日本語", "a,b", "key=value", "q\"uote", "line\nbreak", "z"])).to_string()
}
fn gen_map(rng: &mut Rng) -> std::collections::HashMap<String, String> {
    let mut m = std::collections::HashMap::new();
    for _ in 0..rng.below(3) {
        m.insert(gen_string(rng), gen_string(rng));
    }
    m
}
pub fn gen_function(rng: &mut Rng, ids: &[u64], max_degree: usize) -> v1::Function {
    let pick = |rng: &mut Rng| if ids.is_empty() { 0 } else { ids[rng.usize(ids.len())] };
    let d = if ids.is_empty() { 0 } else { rng.usize(max_degree + 1) };
    match d {
        0 => {
            if rng.chance(1, 6) {
                v1::Function::default()
            } else {
                msg::f_const(rng.half(4, false))
            }
        }
        1 => {
            let n = rng.usize(4);
            let terms: Vec<(u64, f64)> = (0..n).map(|_| (pick(rng), rng.half(4, false))).collect();
            msg::f_lin(msg::linear(&terms, rng.half(3, false)))
        }
        2 => {
            let n = 1 + rng.usize(3);
            let ents: Vec<(u64, u64, f64)> = (0..n).map(|_| (pick(rng), pick(rng), rng.half(3, false))).collect();
            let lin = if rng.chance(1, 2) { Some(msg::linear(&[(pick(rng), rng.half(3, true))], rng.half(2, false))) } else { None };
            msg::f_quad(msg::quadratic(&ents, lin))
        }
        _ => {
            let n = 1 + rng.usize(3);
            let terms: Vec<(Vec<u64>, f64)> = (0..n).map(|_| ((0..rng.usize(d + 1)).map(|_| pick(rng)).collect(), rng.half(3, false))).collect();
            msg::f_poly(msg::polynomial(&terms))
        }
    }
}

pub fn gen_dvars(rng: &mut Rng) -> Vec<v1::DecisionVariable> {
    let pool: [u64; 10] = [0, 1, 2, 3, 5, 8, 13, 100, 4294967296, u64::MAX];
    let mut ids = pool.to_vec();
    rng.shuffle(&mut ids);
    ids.truncate(rng.usize(6));
    ids.iter()
        .map(|id| {
            let kind = 1 + rng.below(5) as i32;
            let b = match rng.below(4) {
                0 => None,
                1 => Some((0.0, 1.0)),
                2 => Some((f64::NEG_INFINITY, f64::INFINITY)),
                _ => {
                    let l = rng.half(3, false);
                    Some((l, l + rng.below(5) as f64))
                }
            };
            let mut d = msg::dvar(*id, kind, b);
            if rng.chance(1, 2) {
                d.name = Some(gen_string(rng));
            }
            if rng.chance(1, 3) {
                d.subscripts = (0..rng.below(3)).map(|_| rng.range(-3, 3)).collect();
            }
            if rng.chance(1, 4) {
                d.parameters = gen_map(rng);
            }
            if rng.chance(1, 5) {
                d.description = Some(gen_string(rng));
            }
            if rng.chance(1, 6) {
                d.substituted_value = Some(rng.half(2, false));
            }
            d
        })
        .collect()
}

pub fn gen_constraint(rng: &mut Rng, id: u64, ids: &[u64]) -> v1::Constraint {
    let mut c = msg::constraint(id, 1 + rng.below(2) as i32, Some(gen_function(rng, ids, 3)));
    if rng.chance(1, 2) {
        c.name = Some(gen_string(rng));
    }
    if rng.chance(1, 3) {
        c.subscripts = (0..rng.below(3)).map(|_| rng.range(-3, 3)).collect();
    }
    if rng.chance(1, 4) {
        c.parameters = gen_map(rng);
    }
    if rng.chance(1, 5) {
        c.description = Some(gen_string(rng));
    }
    c
}

pub fn gen_instance(rng: &mut Rng) -> v1::Instance {
    let mut inst = v1::Instance::default();
    if rng.chance(1, 8) {
        return inst; // the empty message (encodes to zero bytes)
    }
    inst.decision_variables = gen_dvars(rng);
    let ids: Vec<u64> = inst.decision_variables.iter().map(|d| d.id).collect();
    inst.objective = if rng.chance(1, 8) { None } else { Some(gen_function(rng, &ids, 3)) };
    let mut cid = 0;
    for _ in 0..rng.below(4) {
        cid += 1 + rng.below(5);
        inst.constraints.push(gen_constraint(rng, cid, &ids));
    }
    for _ in 0..rng.below(3) {
        cid += 1 + rng.below(5);
        let mut r = v1::RemovedConstraint::default();
        r.constraint = Some(gen_constraint(rng, cid, &ids));
        r.removed_reason = gen_string(rng);
        r.removed_reason_parameters = gen_map(rng);
        inst.removed_constraints.push(r);
    }
    inst.sense = rng.below(3) as i32;
    if rng.chance(1, 2) {
        let mut d = v1::instance::Description::default();
        if rng.chance(1, 2) {
            d.name = Some(gen_string(rng));
        }
        if rng.chance(1, 2) {
            d.description = Some(gen_string(rng));
        }
        d.authors = (0..rng.below(3)).map(|_| gen_string(rng)).collect();
        if rng.chance(1, 2) {
            d.created_by = Some(gen_string(rng));
        }
        inst.description = Some(d);
    }
    if rng.chance(1, 4) {
        let mut p = v1::Parameters::default();
        for _ in 0..rng.below(3) {
            p.entries.insert(rng.below(50), rng.half(3, false));
        }
        inst.parameters = Some(p);
    }
    if rng.chance(1, 4) && !ids.is_empty() {
        let mut h = v1::ConstraintHints::default();
        let mut oh = v1::OneHot::default();
        oh.constraint_id = inst.constraints.first().map(|c| c.id).unwrap_or(0);
        oh.decision_variables = ids.iter().take(2).copied().collect();
        h.one_hot_constraints.push(oh);
        if rng.chance(1, 2) {
            let mut s = v1::Sos1::default();
            s.binary_constraint_id = oh_id(&inst);
            s.big_m_constraint_ids = inst.constraints.iter().map(|c| c.id).collect();
            s.decision_variables = ids.clone();
            h.sos1_constraints.push(s);
        }
        inst.constraint_hints = Some(h);
    }
    if rng.chance(1, 3) && ids.len() >= 2 {
        for k in 0..rng.usize(3).min(ids.len() - 1) {
            inst.decision_variable_dependency.insert(ids[k], gen_function(rng, &ids[k + 1..], 2));
        }
    }
    inst
}
fn oh_id(inst: &v1::Instance) -> u64 {
    inst.constraints.first().map(|c| c.id).unwrap_or(0)
}

pub fn gen_state(rng: &mut Rng) -> v1::State {
    let mut s = v1::State::default();
    for _ in 0..rng.below(6) {
        s.entries.insert(*rng.pick(&[0u64, 1, 2, 3, 5, 8, 100, u64::MAX]), *rng.pick(&[0.0, 1.0, -1.5, 2.5, 1e-9, 1e300, f64::INFINITY]));
    }
    s
}

fn gen_sampled_values(rng: &mut Rng, sample_ids: &[u64]) -> v1::SampledValues {
    let mut sv = v1::SampledValues::default();
    let mut ids = sample_ids.to_vec();
    rng.shuffle(&mut ids);
    while !ids.is_empty() {
        let n = 1 + rng.usize(ids.len());
        let mut e = v1::sampled_values::SampledValuesEntry::default();
        e.value = rng.half(4, false);
        e.ids = ids.drain(..n).collect();
        sv.entries.push(e);
    }
    sv
}

#[allow(deprecated)]
pub fn gen_sample_set(rng: &mut Rng) -> v1::SampleSet {
    let mut ss = v1::SampleSet::default();
    if rng.chance(1, 8) {
        return ss;
    }
    let sample_ids: Vec<u64> = (0..rng.below(5)).map(|i| i * (1 + rng.below(3))).collect::<std::collections::BTreeSet<u64>>().into_iter().collect();
    ss.objectives = Some(gen_sampled_values(rng, &sample_ids));
    for d in gen_dvars(rng) {
        let mut sd = v1::SampledDecisionVariable::default();
        sd.decision_variable = Some(d);
        if rng.chance(3, 4) {
            sd.samples = Some(gen_sampled_values(rng, &sample_ids));
        }
        ss.decision_variables.push(sd);
    }
    for k in 0..rng.below(3) {
        let mut c = v1::SampledConstraint::default();
        c.id = k * 3;
        c.equality = 1 + rng.below(2) as i32;
        if rng.chance(1, 2) {
            c.name = Some(gen_string(rng));
        }
        c.subscripts = (0..rng.below(3)).map(|_| rng.range(-3, 3)).collect();
        c.parameters = gen_map(rng);
        if rng.chance(1, 3) {
            c.removed_reason = Some(gen_string(rng));
            c.removed_reason_parameters = gen_map(rng);
        }
        c.evaluated_values = Some(gen_sampled_values(rng, &sample_ids));
        c.used_decision_variable_ids = (0..rng.below(3)).collect();
        for s in &sample_ids {
            c.feasible.insert(*s, rng.chance(1, 2));
        }
        ss.constraints.push(c);
    }
    for s in &sample_ids {
        ss.feasible.insert(*s, rng.chance(1, 2));
        if rng.chance(1, 2) {
            ss.feasible_relaxed.insert(*s, rng.chance(1, 2));
        }
        if rng.chance(1, 3) {
            ss.feasible_unrelaxed.insert(*s, rng.chance(1, 2));
        }
    }
    ss.sense = rng.below(3) as i32;
    ss
}

pub fn gen_parametric(rng: &mut Rng) -> v1::ParametricInstance {
    let mut pi = v1::ParametricInstance::default();
    if rng.chance(1, 8) {
        return pi;
    }
    let inst = gen_instance(rng);
    pi.description = inst.description;
    pi.decision_variables = inst.decision_variables;
    let mut ids: Vec<u64> = pi.decision_variables.iter().map(|d| d.id).collect();
    for k in 0..rng.below(3) {
        let mut p = v1::Parameter::default();
        p.id = 1000 + k;
        if rng.chance(1, 2) {
            p.name = Some(gen_string(rng));
        }
        p.subscripts = (0..rng.below(3)).map(|_| rng.range(-3, 3)).collect();
        p.parameters = gen_map(rng);
        if rng.chance(1, 3) {
            p.description = Some(gen_string(rng));
        }
        ids.push(p.id);
        pi.parameters.push(p);
    }
    pi.objective = Some(gen_function(rng, &ids, 3));
    let mut cid = 0;
    for _ in 0..rng.below(3) {
        cid += 1 + rng.below(4);
        pi.constraints.push(gen_constraint(rng, cid, &ids));
    }
    pi.sense = inst.sense;
    pi.constraint_hints = inst.constraint_hints;
    pi.removed_constraints = inst.removed_constraints;
    pi.decision_variable_dependency = inst.decision_variable_dependency;
    pi
}
