//! Constructors for the (non_exhaustive) prost messages.
use ommx::v1;

pub fn term(id: u64, c: f64) -> v1::linear::Term {
    let mut t = v1::linear::Term::default();
    t.id = id;
    t.coefficient = c;
    t
}
pub fn linear(terms: &[(u64, f64)], constant: f64) -> v1::Linear {
    let mut l = v1::Linear::default();
    l.terms = terms.iter().map(|(i, c)| term(*i, *c)).collect();
    l.constant = constant;
    l
}
pub fn quadratic(entries: &[(u64, u64, f64)], lin: Option<v1::Linear>) -> v1::Quadratic {
    let mut q = v1::Quadratic::default();
    for (r, c, v) in entries {
        q.rows.push(*r);
        q.columns.push(*c);
        q.values.push(*v);
    }
    q.linear = lin;
    q
}
pub fn monomial(ids: &[u64], c: f64) -> v1::Monomial {
    let mut m = v1::Monomial::default();
    m.ids = ids.to_vec();
    m.coefficient = c;
    m
}
pub fn polynomial(terms: &[(Vec<u64>, f64)]) -> v1::Polynomial {
    let mut p = v1::Polynomial::default();
    p.terms = terms.iter().map(|(i, c)| monomial(i, *c)).collect();
    p
}
pub fn f_const(c: f64) -> v1::Function {
    let mut f = v1::Function::default();
    f.function = Some(v1::function::Function::Constant(c));
    f
}
pub fn f_lin(l: v1::Linear) -> v1::Function {
    let mut f = v1::Function::default();
    f.function = Some(v1::function::Function::Linear(l));
    f
}
pub fn f_quad(q: v1::Quadratic) -> v1::Function {
    let mut f = v1::Function::default();
    f.function = Some(v1::function::Function::Quadratic(q));
    f
}
pub fn f_poly(p: v1::Polynomial) -> v1::Function {
    let mut f = v1::Function::default();
    f.function = Some(v1::function::Function::Polynomial(p));
    f
}
pub fn bound(l: f64, u: f64) -> v1::Bound {
    let mut b = v1::Bound::default();
    b.lower = l;
    b.upper = u;
    b
}
pub fn dvar(id: u64, kind: i32, b: Option<(f64, f64)>) -> v1::DecisionVariable {
    let mut d = v1::DecisionVariable::default();
    d.id = id;
    d.kind = kind;
    d.bound = b.map(|(l, u)| bound(l, u));
    d
}
pub fn constraint(id: u64, equality: i32, f: Option<v1::Function>) -> v1::Constraint {
    let mut c = v1::Constraint::default();
    c.id = id;
    c.equality = equality;
    c.function = f;
    c
}
pub fn state(entries: &[(u64, f64)]) -> v1::State {
    let mut s = v1::State::default();
    for (k, v) in entries {
        s.entries.insert(*k, *v);
    }
    s
}
