//! ommx-dst: deterministic simulation with fault injection for Jij-Inc/ommx. See /verif/DESIGN.md.
mod model;
mod props;
mod rng;
mod runner;
mod simos;

use runner::{Options, Tier};

#[global_allocator]
static ALLOC: simos::CapAlloc = simos::CapAlloc;

fn usage() -> ! {
    eprintln!("usage: check <Cxx> [--tier quick|thorough] [--runs N] [--workers N] [--replay FILE [--quiet]] [--hashes-out FILE] [--no-evidence]");
    std::process::exit(2)
}

macro_rules! dispatch {
    ($id:expr, $f:ident, $($arg:expr),*) => {
        match $id {
            "C03" => runner::$f(&props::c03::C03, $($arg),*),
            "C04" => runner::$f(&props::c04::C04, $($arg),*),
            "C07" => runner::$f(&props::c07::C07, $($arg),*),
            "C08" => runner::$f(&props::c08::C08, $($arg),*),
            "C14" => runner::$f(&props::c14::C14, $($arg),*),
            "C17" => runner::$f(&props::c17::C17, $($arg),*),
            "C18" => runner::$f(&props::c18::C18, $($arg),*),
            "C19" => runner::$f(&props::c19::C19, $($arg),*),
            "C20" => runner::$f(&props::c20::C20, $($arg),*),
            _ => { eprintln!("HARNESS-ERROR: no check for property {}", $id); 2 }
        }
    };
}

/// Process-wide lazies (regexes, tables) are initialised here, on the main thread, so that no simulation
/// thread ever pays for them (the first run of a process must be indistinguishable from any other).
fn warmup() {
    let _ = ommx::ocipkg::Digest::new("sha256:00");
    let _ = ommx::ocipkg::ImageName::parse("ghcr.io/jij-inc/ommx/warmup:tag");
    let _ = ommx::artifact::media_types::v1_instance();
    let _: Result<serde_json::Value, _> = serde_json::from_str("{\"a\":[1,2.5,null]}");
    let _ = chrono::DateTime::parse_from_rfc3339("2024-01-01T00:00:00+09:00");
    // the regex crate keeps a process-global pool of match caches in 8 stacks selected by thread id; a thread
    // that finds its stack empty creates a cache (and with it hash maps, which would shift the hash keys of the
    // run that happened to be first). Fill every stack once, from consecutive threads, before any simulation.
    for _ in 0..24 {
        let _ = std::thread::spawn(|| {
            let _ = ommx::ocipkg::Digest::new("sha256:00");
            let _ = ommx::ocipkg::ImageName::parse("ghcr.io/jij-inc/ommx/warmup:tag");
        })
        .join();
    }
}

fn main() {
    // the time zone is process configuration (C20 compares instants); pinned unless the caller chose one
    if std::env::var_os("TZ").is_none() {
        std::env::set_var("TZ", "America/St_Johns");
    }
    warmup();
    runner::install_panic_hook();
    simos::install_abort_handler();
    let args: Vec<String> = std::env::args().skip(1).collect();
    if args.is_empty() {
        usage();
    }
    if args[0] == "--selftest" {
        std::process::exit(selftest(&args[1..]));
    }
    let id = args[0].clone();
    let mut tier = match std::env::var("VERIF_TIER").as_deref() {
        Ok("thorough") => Tier::Thorough,
        _ => Tier::Quick,
    };
    let seed: u64 = std::env::var("VERIF_SEED").ok().and_then(|s| s.trim().parse::<i64>().ok()).map(|v| v as u64).unwrap_or(1);
    let mut runs = None;
    let mut workers = std::thread::available_parallelism().map(|n| n.get()).unwrap_or(4).min(16);
    let mut replay: Option<String> = None;
    let mut quiet = false;
    let mut hashes_out = None;
    let mut no_evidence = false;
    let mut dump_run = None;
    let mut child = None;
    let mut i = 1;
    while i < args.len() {
        match args[i].as_str() {
            "--tier" => {
                i += 1;
                tier = match args.get(i).map(|s| s.as_str()) {
                    Some("quick") => Tier::Quick,
                    Some("thorough") => Tier::Thorough,
                    _ => usage(),
                }
            }
            "--runs" => {
                i += 1;
                runs = args.get(i).and_then(|s| s.parse().ok());
            }
            "--workers" => {
                i += 1;
                workers = args.get(i).and_then(|s| s.parse().ok()).unwrap_or(workers);
            }
            "--replay" => {
                i += 1;
                replay = args.get(i).cloned();
            }
            "--quiet" => quiet = true,
            "--hashes-out" => {
                i += 1;
                hashes_out = args.get(i).cloned();
            }
            "--no-evidence" => no_evidence = true,
            "--child" => {
                let k = args.get(i + 1).and_then(|s| s.parse().ok()).unwrap_or(0);
                let n = args.get(i + 2).and_then(|s| s.parse().ok()).unwrap_or(1);
                child = Some((k, n, args.get(i + 3).cloned().unwrap_or_default()));
                i += 3;
            }
            "--dump-run" => {
                i += 1;
                dump_run = args.get(i).and_then(|s| s.parse().ok());
            }
            _ => usage(),
        }
        i += 1;
    }
    let code = if let Some(path) = replay {
        dispatch!(id.as_str(), replay, &path, quiet)
    } else {
        let opt = Options { tier, seed, runs, workers, hashes_out, no_evidence, dump_run, child };
        dispatch!(id.as_str(), run_check, &opt)
    };
    std::process::exit(code);
}

const CLAIMED: [&str; 9] = ["C03", "C04", "C07", "C08", "C14", "C17", "C18", "C19", "C20"];

/// `--selftest determinism [Cxx ...]`: every run is executed in separate processes, at worker counts 1 and 16 and
/// under two time zones, and the per-run event-log hashes are compared.
fn selftest(args: &[String]) -> i32 {
    if args.first().map(|s| s.as_str()) != Some("determinism") {
        usage();
    }
    let props: Vec<String> = if args.len() > 1 { args[1..].to_vec() } else { CLAIMED.iter().map(|s| s.to_string()).collect() };
    let exe = std::env::current_exe().expect("current_exe");
    let dir = runner::scratch_root();
    let _ = std::fs::create_dir_all(&dir);
    let mut bad = 0;
    for p in &props {
        let run = |tag: &str, extra: &[&str], tz: &str| -> Option<String> {
            let out = format!("{}/{}-{}.hashes", dir, p, tag);
            let st = std::process::Command::new(&exe).arg(p).args(extra).arg("--hashes-out").arg(&out).arg("--no-evidence").env("TZ", tz).env("VERIF_SEED", "1").output().ok()?;
            if st.status.code() != Some(0) {
                eprintln!("selftest: {} {} exited with {:?}", p, tag, st.status.code());
                return None;
            }
            std::fs::read_to_string(&out).ok()
        };
        // the time zone is configuration for C20 (stored timestamps carry the local offset, hence digests differ);
        // everything else must not depend on it
        let (tz1, tz2) = if p == "C20" { ("Asia/Tokyo", "Asia/Tokyo") } else { ("UTC", "Asia/Tokyo") };
        // (a) sampled runs: 1 worker vs 16 workers
        let a = run("w1", &["--runs", "2000", "--workers", "1"], tz1);
        let b = run("w16", &["--runs", "2000", "--workers", "16"], tz2);
        // (b) the whole quick tier (enumerated + sampled) twice
        let (tz3, tz4) = if p == "C20" { ("America/St_Johns", "America/St_Johns") } else { ("America/St_Johns", "UTC") };
        let c = run("q1", &["--tier", "quick"], tz3);
        let d = run("q2", &["--tier", "quick", "--workers", "7"], tz4);
        let cmp = |x: &Option<String>, y: &Option<String>, what: &str| -> u64 {
            match (x, y) {
                (Some(x), Some(y)) => {
                    let n = x.lines().count();
                    let diff = x.lines().zip(y.lines()).filter(|(a, b)| a != b).count() + (x.lines().count() as i64 - y.lines().count() as i64).unsigned_abs() as usize;
                    println!("selftest determinism: {} {}: {} runs compared, {} mismatches", p, what, n, diff);
                    diff as u64
                }
                _ => {
                    println!("selftest determinism: {} {}: a run failed", p, what);
                    1
                }
            }
        };
        bad += cmp(&a, &b, &format!("2000 sampled runs, 1 worker/TZ={tz1} vs 16 workers/TZ={tz2}"));
        bad += cmp(&c, &d, &format!("quick tier, 16 workers/TZ={tz3} vs 7 workers/TZ={tz4}"));
    }
    let _ = std::fs::remove_dir_all(&dir);
    if bad == 0 {
        println!("selftest determinism: ok");
        0
    } else {
        println!("selftest determinism: FAILED");
        2
    }
}
