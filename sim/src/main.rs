//! ommx-dst: deterministic simulation with fault injection for Jij-Inc/ommx. See /verif/DESIGN.md.
mod model;
mod props;
mod rng;
mod runner;
mod simos;

use runner::{Options, Tier};

fn usage() -> ! {
    eprintln!("usage: check <Cxx> [--tier quick|thorough] [--runs N] [--workers N] [--replay FILE [--quiet]] [--hashes-out FILE] [--no-evidence]");
    std::process::exit(2)
}

macro_rules! dispatch {
    ($id:expr, $f:ident, $($arg:expr),*) => {
        match $id {
            "C03" => runner::$f(&props::c03::C03, $($arg),*),
            "C04" => runner::$f(&props::c04::C04, $($arg),*),
            "C07" => runner::$f(&props::c07::C07, $($arg),*),
            "C08" => runner::$f(&props::c08::C08, $($arg),*),
            "C14" => runner::$f(&props::c14::C14, $($arg),*),
            "C17" => runner::$f(&props::c17::C17, $($arg),*),
            "C18" => runner::$f(&props::c18::C18, $($arg),*),
            "C19" => runner::$f(&props::c19::C19, $($arg),*),
            "C20" => runner::$f(&props::c20::C20, $($arg),*),
            _ => { eprintln!("HARNESS-ERROR: no check for property {}", $id); 2 }
        }
    };
}

/// Process-wide lazies (regexes, tables) are initialised here, on the main thread, so that no simulation
/// thread ever pays for them (the first run of a process must be indistinguishable from any other).
fn warmup() {
    let _ = ommx::ocipkg::Digest::new("sha256:00");
    let _ = ommx::ocipkg::ImageName::parse("ghcr.io/jij-inc/ommx/warmup:tag");
    let _ = ommx::artifact::media_types::v1_instance();
    let _: Result<serde_json::Value, _> = serde_json::from_str("{\"a\":[1,2.5,null]}");
    let _ = chrono::DateTime::parse_from_rfc3339("2024-01-01T00:00:00+09:00");
}

fn main() {
    // the time zone is process configuration (C20 compares instants); pinned unless the caller chose one
    if std::env::var_os("TZ").is_none() {
        std::env::set_var("TZ", "America/St_Johns");
    }
    warmup();
    runner::install_panic_hook();
    let args: Vec<String> = std::env::args().skip(1).collect();
    if args.is_empty() {
        usage();
    }
    let id = args[0].clone();
    let mut tier = match std::env::var("VERIF_TIER").as_deref() {
        Ok("thorough") => Tier::Thorough,
        _ => Tier::Quick,
    };
    let seed: u64 = std::env::var("VERIF_SEED").ok().and_then(|s| s.trim().parse::<i64>().ok()).map(|v| v as u64).unwrap_or(1);
    let mut runs = None;
    let mut workers = std::thread::available_parallelism().map(|n| n.get()).unwrap_or(4).min(16);
    let mut replay: Option<String> = None;
    let mut quiet = false;
    let mut hashes_out = None;
    let mut no_evidence = false;
    let mut i = 1;
    while i < args.len() {
        match args[i].as_str() {
            "--tier" => {
                i += 1;
                tier = match args.get(i).map(|s| s.as_str()) {
                    Some("quick") => Tier::Quick,
                    Some("thorough") => Tier::Thorough,
                    _ => usage(),
                }
            }
            "--runs" => {
                i += 1;
                runs = args.get(i).and_then(|s| s.parse().ok());
            }
            "--workers" => {
                i += 1;
                workers = args.get(i).and_then(|s| s.parse().ok()).unwrap_or(workers);
            }
            "--replay" => {
                i += 1;
                replay = args.get(i).cloned();
            }
            "--quiet" => quiet = true,
            "--hashes-out" => {
                i += 1;
                hashes_out = args.get(i).cloned();
            }
            "--no-evidence" => no_evidence = true,
            _ => usage(),
        }
        i += 1;
    }
    let code = if let Some(path) = replay {
        dispatch!(id.as_str(), replay, &path, quiet)
    } else {
        let opt = Options { tier, seed, runs, workers, hashes_out, no_evidence };
        dispatch!(id.as_str(), run_check, &opt)
    };
    std::process::exit(code);
}
