//! C17 — MPS files are read as the problem they describe, on a simulated stream / simulated disk:
//! short reads, EINTR, EIO at any byte, one flipped bit in the gzip container, open failure.

use crate::model::gz::{self, Gz};
use crate::model::lp::{self, NormCon, NormProblem};
use crate::model::mps::{gen_layout, gen_model, Corrupt, Layout, MpsModel};
use crate::props::c18::gen_read_fault;
use crate::rng::Rng;
use crate::runner::{remove_each, Exec, Prop, SimParams, Tier};
use crate::simos::{Act, At, Chunk, Dir, Fault, SimReader};
use serde::{Deserialize, Serialize};

#[derive(Clone, Copy, Debug, Serialize, Deserialize, PartialEq, Eq)]
pub enum Entry {
    RawReader,
    ZippedReader,
    File,
}

#[derive(Clone, Debug, Serialize, Deserialize)]
pub struct Case {
    pub model: MpsModel,
    pub layout: Layout,
    pub gz: Gz,
    pub corrupt: Option<Corrupt>,
    pub entry: Entry,
    pub faults: Vec<Fault>,
    pub chunk_r: Chunk,
    /// one flipped bit of the stored container (index modulo its size in bits)
    pub flip_bit: Option<u64>,
    pub hash_seed: u64,
    /// the file route goes through load_file_bytes (+ decode) instead of load_file
    #[serde(default)]
    pub via_bytes: bool,
}

pub const FILE: &str = "in.mps.gz";
pub const STREAM: &str = "input";

fn role(e: Entry) -> &'static str {
    if e == Entry::File {
        FILE
    } else {
        STREAM
    }
}

pub fn bytes_of(c: &Case) -> (String, Vec<u8>) {
    let text = c.model.render(&c.layout, c.corrupt.as_ref());
    let mut bytes = gz::pack(&c.gz, text.as_bytes());
    if let Some(b) = c.flip_bit {
        if !bytes.is_empty() {
            let k = (b % (bytes.len() as u64 * 8)) as usize;
            bytes[k / 8] ^= 1 << (k % 8);
        }
    }
    (text, bytes)
}

/// Compare the loaded problem with the expected one (ranged rows: two constraints, one under the row's name).
pub fn compare(expected: &NormProblem, got: &NormProblem) -> Vec<(String, String)> {
    let mut out = lp::diff(expected, got, false);
    if got.vars.len() != expected.vars.len() {
        out.push(("variable-count".into(), format!("expected {} variables got {}", expected.vars.len(), got.vars.len())));
    }
    let mut unmatched: Vec<&NormCon> = got.constraints.iter().collect();
    let mut take = |pred: &dyn Fn(&NormCon) -> bool, unmatched: &mut Vec<&NormCon>| -> Option<NormCon> {
        let i = unmatched.iter().position(|c| pred(c))?;
        Some(unmatched.remove(i).clone())
    };
    let mut ranged: Vec<(String, &NormCon, &NormCon)> = vec![];
    let mut i = 0;
    while i < expected.constraints.len() {
        let e = &expected.constraints[i];
        if let Some(name) = e.key.strip_suffix("\u{1}lo") {
            ranged.push((name.to_string(), e, &expected.constraints[i + 1]));
            i += 2;
            continue;
        }
        match take(&|c| c.key == e.key, &mut unmatched) {
            None => out.push(("constraint-missing".into(), format!("no constraint named {}", e.key))),
            Some(g) => {
                if g.eq != e.eq {
                    out.push(("constraint-equality".into(), format!("row {}: expected eq={} got {}", e.key, e.eq, g.eq)));
                }
                if !g.lin.same(&e.lin) {
                    out.push(("constraint-function".into(), format!("row {}: expected [{}] got [{}]", e.key, e.lin.show(), g.lin.show())));
                }
            }
        }
        i += 1;
    }
    // first every constraint that must carry a row's name, then the second halves of ranged rows by content
    // (so that a content match can never steal a constraint that another row needs under its name)
    let mut others: Vec<(String, &NormCon)> = vec![];
    for (name, lo, hi) in ranged {
        match take(&|c| c.key == name, &mut unmatched) {
            None => out.push(("constraint-missing".into(), format!("no constraint named {} (ranged row)", name))),
            Some(g) => {
                if !g.eq && g.lin.same(&lo.lin) {
                    others.push((name, hi));
                } else if !g.eq && g.lin.same(&hi.lin) {
                    others.push((name, lo));
                } else {
                    out.push(("range-constraint".into(), format!("ranged row {}: expected [{}]<=0 or [{}]<=0 under the row's name, got eq={} [{}]", name, lo.lin.show(), hi.lin.show(), g.eq, g.lin.show())));
                }
            }
        }
    }
    for (name, o) in others {
        if take(&|c| !c.eq && c.lin.same(&o.lin), &mut unmatched).is_none() {
            out.push(("range-constraint".into(), format!("ranged row {}: the second constraint [{}]<=0 is missing", name, o.lin.show())));
        }
    }
    // whatever a ranged row failed to match may still be lying around; anything else is an extra constraint
    if out.iter().all(|(c, _)| c != "range-constraint") {
        for u in unmatched {
            out.push(("constraint-extra".into(), format!("unexpected constraint {} [{}]", u.key, u.lin.show())));
        }
    }
    out
}

fn cut_points(text: &str, mode: u64) -> Vec<u32> {
    // explicit chunk sizes cutting the plain text at line ends (0) or inside number tokens (1)
    let b = text.as_bytes();
    let mut cuts: Vec<usize> = vec![];
    match mode {
        0 => {
            for (i, c) in b.iter().enumerate() {
                if *c == b'\n' {
                    cuts.push(i + 1);
                }
            }
        }
        _ => {
            for i in 1..b.len() {
                let d = |c: u8| c.is_ascii_digit() || c == b'.' || c == b'-' || c == b'e';
                if d(b[i]) && d(b[i - 1]) {
                    cuts.push(i);
                }
            }
        }
    }
    let mut sizes = vec![];
    let mut last = 0;
    for c in cuts {
        if c > last {
            sizes.push((c - last) as u32);
            last = c;
        }
    }
    sizes.push(u32::MAX / 2);
    sizes
}

pub fn gen_gz(rng: &mut Rng) -> Gz {
    if rng.chance(1, 8) {
        let n = rng.range(1, 3);
        Gz::Multi { cuts: (0..n).map(|_| rng.below(1001) as u16).collect(), level: rng.below(10) as u32 }
    } else if rng.chance(1, 2) {
        Gz::Flate(rng.below(10) as u32)
    } else {
        Gz::Stored { block: *rng.pick(&[1u16, 7, 64, 500, 65535]), fname: rng.chance(1, 2), fcomment: rng.chance(1, 4), fextra: rng.chance(1, 4), fhcrc: rng.chance(1, 4) }
    }
}

#[derive(Clone, Copy)]
pub struct C17;

impl C17 {
    /// a gzip case (never plain) for the exhaustive bit-flip enumeration
    fn flip_base(&self, gs: u64) -> Case {
        let mut rng = Rng::new(gs);
        let mut c = self.base_case(&mut rng);
        if c.gz == Gz::Plain {
            c.entry = if rng.chance(1, 2) { Entry::ZippedReader } else { Entry::File };
            c.gz = gen_gz(&mut rng);
        }
        c
    }
    fn base_case(&self, rng: &mut Rng) -> Case {
        let model = gen_model(rng);
        let layout = gen_layout(rng);
        let entry = *rng.pick(&[Entry::RawReader, Entry::ZippedReader, Entry::File]);
        let gz = if entry == Entry::RawReader { Gz::Plain } else { gen_gz(rng) };
        Case { model, layout, gz, corrupt: None, entry, faults: vec![], chunk_r: Chunk::Whole, flip_bit: None, hash_seed: rng.next(), via_bytes: false }
    }
}

impl Prop for C17 {
    type Case = Case;
    fn id(&self) -> &'static str {
        "C17"
    }
    fn runs(&self, tier: Tier) -> u64 {
        match tier {
            Tier::Quick => 60_000,
            Tier::Thorough => 2_500_000,
        }
    }
    fn gen(&self, rng: &mut Rng, _tier: Tier, _idx: u64) -> Case {
        let mut c = self.base_case(rng);
        c.via_bytes = c.entry == Entry::File && rng.chance(1, 4);
        // now and then a file that outgrows the readers' buffers (BufReader 8 KiB, flate2 32 KiB)
        if rng.chance(1, 40) {
            c.layout.padding_kb = *rng.pick(&[9u8, 17, 40, 70]);
        }
        // now and then a text aligned with the readers' buffers: a line whose terminator is the last / first byte of
        // an 8 / 16 / 32 / 64 KiB buffer, or a text of exactly that length
        if rng.chance(1, 30) {
            c.layout.long_line_kb = *rng.pick(&[9u8, 17, 33, 70]);
        }
        if rng.chance(1, 25) {
            c.layout.align = Some(crate::model::align::Align { line: rng.below(400) as u16, boundary: *rng.pick(&[0u8, 0, 0, 1, 2, 3]), variant: rng.below(3) as u8 });
        }
        let mode = rng.below(20);
        let (text, bytes) = bytes_of(&c);
        let len = bytes.len() as u64;
        // chunking: any run but the first population
        if mode >= 3 {
            c.chunk_r = match rng.below(8) {
                0 | 1 => Chunk::Whole,
                2 => Chunk::One,
                3 => Chunk::Rand { max: 1 + rng.below(5) as u32, seed: rng.next() },
                4 => Chunk::Rand { max: 1 + rng.below(100) as u32, seed: rng.next() },
                5 if c.gz == Gz::Plain => Chunk::Cycle(cut_points(&text, 0)),
                6 if c.gz == Gz::Plain => Chunk::Cycle(cut_points(&text, 1)),
                5 | 6 => {
                    // split the gzip header (10 bytes) and the trailer (last 8 bytes)
                    let l = len.max(20) as u32;
                    Chunk::Cycle(vec![1 + rng.below(9) as u32, l - 10 - 1 - rng.below(7) as u32, 1, 1, 1, 1, u32::MAX / 2])
                }
                _ => Chunk::Rand { max: 1 + rng.below(20) as u32, seed: rng.next() },
            };
        }
        if c.layout.padding_kb > 0 || c.layout.align.is_some() || c.layout.long_line_kb > 0 {
            if let Chunk::One = c.chunk_r {
                c.chunk_r = Chunk::Rand { max: 4096, seed: rng.next() };
            }
        }
        match mode {
            0..=6 => {}
            7..=10 => {
                // transient faults only
                for _ in 0..1 + rng.below(3) {
                    let act = if rng.chance(2, 3) { Act::Eintr } else { Act::Short(1 + rng.below(6) as u32) };
                    let at = if rng.chance(1, 2) { At::Call(rng.below(12)) } else { At::Byte(rng.below(len + 1)) };
                    c.faults.push(Fault { op: 0, role: role(c.entry).into(), dir: Dir::R, at, act });
                }
            }
            11..=14 => {
                c.faults.push(gen_read_fault(rng, 0, role(c.entry), len));
                if c.entry != Entry::File {
                    c.faults.retain(|f| f.dir != Dir::Open);
                    if c.faults.is_empty() {
                        c.faults.push(Fault { op: 0, role: role(c.entry).into(), dir: Dir::R, at: At::Byte(rng.below(len + 1)), act: Act::Eio });
                    }
                }
                if rng.chance(1, 3) {
                    c.faults.push(Fault { op: 0, role: role(c.entry).into(), dir: Dir::R, at: At::Call(rng.below(8)), act: Act::Eintr });
                }
            }
            15 | 16 => {
                if c.gz != Gz::Plain {
                    c.flip_bit = Some(match rng.below(4) {
                        0 => rng.below(80),                                  // header
                        1 => (len * 8).saturating_sub(1 + rng.below(64)),    // trailer
                        _ => rng.below(len * 8 + 1),
                    });
                }
            }
            _ => {
                let cs = c.model.corruptions();
                c.corrupt = Some(rng.pick(&cs).clone());
            }
        }
        c
    }

    fn enum_plan(&self, tier: Tier, seed: u64) -> Vec<(u64, u64)> {
        // (a) EIO at *every* byte offset (0..=len, i.e. including "after the last byte, before EOF") of N files;
        // (b) *every* single flipped bit of the container of M gzip files. The group seed's lowest bit tells which.
        let (n, m) = match tier {
            Tier::Quick => (20, 2),
            Tier::Thorough => (2000, 150),
        };
        let mut plan: Vec<(u64, u64)> = (0..n)
            .map(|i| {
                let gs = crate::rng::mix(&[seed, 0xC17, i]) & !1;
                let c = self.base_case(&mut Rng::new(gs));
                (bytes_of(&c).1.len() as u64 + 1, gs)
            })
            .collect();
        for i in 0..m {
            let gs = crate::rng::mix(&[seed, 0xB17, i]) | 1;
            let c = self.flip_base(gs);
            plan.push((bytes_of(&c).1.len() as u64 * 8, gs));
        }
        plan
    }
    fn enum_case(&self, gs: u64, k: u64) -> Case {
        if gs & 1 == 1 {
            let mut c = self.flip_base(gs);
            c.flip_bit = Some(k);
            return c;
        }
        let mut c = self.base_case(&mut Rng::new(gs));
        c.faults.push(Fault { op: 0, role: role(c.entry).into(), dir: Dir::R, at: At::Byte(k), act: Act::Eio });
        c
    }

    fn sibling(&self, c: &Case) -> Option<Case> {
        // every sixth case is preceded, in the same run, by another case of the property (generated from its hash seed)
        if c.hash_seed % 6 != 4 {
            return None;
        }
        if c.hash_seed % 12 == 4 {
            // a close relative: the same file but for one digit of a coefficient (same path, same length, same names)
            let mut s = c.clone();
            let bump = |f: &mut crate::model::lp::F| f.0 = if f.0.abs() >= 1.0 && f.0.abs() < 8.0 { f.0 + f.0.signum() } else { f.0 };
            for col in &mut s.model.cols {
                if let Some(o) = &mut col.obj {
                    bump(o);
                }
                for e in &mut col.entries {
                    bump(&mut e.1);
                }
            }
            for r in &mut s.model.rows {
                if let Some(v) = &mut r.rhs {
                    bump(v);
                }
            }
            return Some(s);
        }
        Some(self.gen(&mut Rng::new(c.hash_seed ^ 0x51B1_1B15), Tier::Quick, 0))
    }

    fn sim_params(&self, c: &Case) -> SimParams {
        SimParams { faults: c.faults.clone(), chunk_r: c.chunk_r.clone(), chunk_w: Chunk::Whole, hash_seed: c.hash_seed, ..Default::default() }
    }

    fn exec(&self, case: &Case, x: &mut Exec) {
        let (_text, bytes) = bytes_of(case);
        x.nontrivial = !case.model.cols.is_empty();
        if bytes.len() > 8192 {
            x.count("probe.file_larger_than_bufreader");
        }
        if bytes.len() > 32768 {
            x.count("probe.container_larger_than_flate2_buffer");
        }
        // debugging aid: a copy of the bytes handed to the reader
        if let Ok(p) = std::env::var("VERIF_KEEP_INPUT") {
            let _ = std::fs::write(p, &bytes);
        }
        let path = x.path(FILE);
        if case.entry == Entry::File {
            x.begin_op(99);
            std::fs::write(&path, &bytes).expect("harness: write input file to the sim disk");
        }
        // an earlier call on the same thread (another, tiny file: read completely, cut short, or malformed) must not
        // leak into this one (state kept between calls: line buffers, scratch space)
        if case.hash_seed % 5 <= 2 {
            x.begin_op(98);
            let other: &[u8] = match case.hash_seed % 5 {
                0 => b"NAME P\nROWS\n N  COST\n L  LIM\nCOLUMNS\n    Q  COST  1  LIM  2\nRHS\n    RHS  LIM  4\nBOUNDS\n UP BND  Q  9\nENDATA\n",
                1 => b"NAME P\nROWS\n N  COST\n L  LIM\nCOLUMNS\n    Q  COST  1  LI",
                _ => b"NAME P\nROWS\n N  COST\n Z  LIM\nCOLUMNS\n",
            };
            if let Err(p) = x.quietly(|x| x.sut(|| ommx::mps::load_raw_reader(other))) {
                x.count("probe.earlier_call_panicked");
                let _ = p;
            }
            x.count("probe.earlier_call_on_the_same_thread");
        }
        x.begin_op(0);
        let r = match case.entry {
            Entry::RawReader => x.sut(|| ommx::mps::load_raw_reader(SimReader::new(bytes.clone(), STREAM))),
            Entry::ZippedReader => x.sut(|| ommx::mps::load_zipped_reader(SimReader::new(bytes.clone(), STREAM))),
            // load_file_bytes is load_file followed by the encoding of the message: decoded again it must be the same
            Entry::File if case.via_bytes => x.sut(|| ommx::mps::load_file_bytes(&path).map(|b| <ommx::v1::Instance as prost::Message>::decode(&b[..]).expect("load_file_bytes returned bytes that are not an ommx.v1.Instance"))),
            Entry::File => x.sut(|| ommx::mps::load_file(&path)),
        };
        let api = match case.entry {
            Entry::RawReader => "load_raw_reader",
            Entry::ZippedReader => "load_zipped_reader",
            Entry::File => "load_file",
        };
        let hard = x.hard_fired(0);
        let flipped = case.flip_bit.is_some();
        let r = match r {
            Err(p) => {
                x.api(api, "panic");
                if case.corrupt.is_none() && flipped && !hard {
                    // a flipped bit can turn the text into arbitrary malformed input (e.g. a line with too few
                    // fields) before the checksum is reached; the statement only lists which malformed inputs
                    // must be *errors*, so a panic here is recorded, not judged: it is not "Ok with a wrong problem"
                    x.count("probe.panic_after_bit_flip");
                    return;
                }
                let class = if let Some(c) = &case.corrupt { format!("C17:malformed-panic:{}", corrupt_kind(c)) } else if hard { "C17:panic-under-fault".into() } else { "C17:panic-on-wellformed".into() };
                x.violate(&class, format!("{api} panicked: {p}"));
                return;
            }
            Ok(r) => r,
        };
        match r {
            Err(e) => {
                x.api(api, &format!("Err({e})"));
                if case.corrupt.is_some() {
                    x.count("probe.malformed_rejected");
                } else if hard {
                    x.count("probe.err_after_hard_fault");
                } else if flipped {
                    x.count("probe.err_after_bit_flip");
                } else {
                    let t = x.transient_fired(0);
                    x.violate(if t { "C17:error-under-transient-faults" } else { "C17:error-on-wellformed" }, format!("{api} returned Err({e}) for a well-formed file (transient faults fired: {t})"));
                }
            }
            Ok(inst) => {
                x.api(api, "Ok");
                if let Some(c) = &case.corrupt {
                    x.violate(&format!("C17:malformed-accepted:{}", corrupt_kind(c)), format!("{api} returned Ok for a file with the corruption {:?}", c));
                    return;
                }
                if hard {
                    x.count("probe.ok_despite_hard_fault");
                }
                if flipped {
                    x.count("probe.ok_despite_bit_flip");
                }
                let expected = case.model.expected();
                let prefix = if hard || flipped { "C17:fault-swallowed" } else { "C17:wrong-problem" };
                match lp::norm_instance(&inst, true) {
                    Err(e) => x.violate(&format!("{prefix}:malformed-instance"), e),
                    Ok(got) => {
                        for (class, detail) in compare(&expected, &got) {
                            x.violate(&format!("{prefix}:{class}"), format!("{api} returned Ok; {detail}"));
                        }
                    }
                }
            }
        }
    }

    fn shrink(&self, c: &Case) -> Vec<Case> {
        let mut out = vec![];
        for f in remove_each(&c.faults) {
            out.push(Case { faults: f, ..c.clone() });
        }
        if !c.chunk_r.is_whole() {
            out.push(Case { chunk_r: Chunk::Whole, ..c.clone() });
        }
        if c.flip_bit.is_some() {
            out.push(Case { flip_bit: None, ..c.clone() });
        }
        if c.layout.padding_kb > 0 {
            let mut n = c.clone();
            n.layout.padding_kb = 0;
            out.push(n);
        }
        if c.layout.align.is_some() {
            let mut n = c.clone();
            n.layout.align = None;
            out.push(n);
        }
        if c.corrupt.is_none() {
            for i in 0..c.model.rows.len() {
                let mut n = c.clone();
                n.model.rows.remove(i);
                for col in &mut n.model.cols {
                    col.entries.retain(|e| e.0 != i);
                    for e in &mut col.entries {
                        if e.0 > i {
                            e.0 -= 1;
                        }
                    }
                }
                // keep every column alive
                for col in &mut n.model.cols {
                    if col.obj.is_none() && col.entries.is_empty() {
                        col.obj = Some(lp::F(1.0));
                    }
                }
                out.push(n);
            }
            for i in 0..c.model.cols.len() {
                let mut n = c.clone();
                n.model.cols.remove(i);
                out.push(n);
            }
            for i in 0..c.model.cols.len() {
                for j in 0..c.model.cols[i].bounds.len() {
                    let mut n = c.clone();
                    n.model.cols[i].bounds.remove(j);
                    out.push(n);
                }
                if c.model.cols[i].integer {
                    let mut n = c.clone();
                    n.model.cols[i].integer = false;
                    out.push(n);
                }
                for j in 0..c.model.cols[i].entries.len() {
                    if c.model.cols[i].entries.len() + c.model.cols[i].obj.is_some() as usize > 1 {
                        let mut n = c.clone();
                        n.model.cols[i].entries.remove(j);
                        out.push(n);
                    }
                }
            }
            for i in 0..c.model.rows.len() {
                if c.model.rows[i].range.is_some() {
                    let mut n = c.clone();
                    n.model.rows[i].range = None;
                    out.push(n);
                }
                if c.model.rows[i].rhs.is_some() {
                    let mut n = c.clone();
                    n.model.rows[i].rhs = None;
                    out.push(n);
                }
            }
            if c.model.obj_rhs.is_some() {
                let mut n = c.clone();
                n.model.obj_rhs = None;
                out.push(n);
            }
        }
        let plain = Layout { seed: c.layout.seed, ..Layout::plain() };
        if serde_json::to_string(&plain).ok() != serde_json::to_string(&c.layout).ok() {
            out.push(Case { layout: plain, ..c.clone() });
        }
        if c.entry != Entry::RawReader && c.flip_bit.is_none() && c.faults.is_empty() {
            let mut n = c.clone();
            n.entry = Entry::RawReader;
            n.gz = Gz::Plain;
            out.push(n);
        }
        for (fi, f) in c.faults.iter().enumerate() {
            if let At::Byte(k) = f.at {
                for nk in [k / 2, k.saturating_sub(1)] {
                    if nk < k {
                        let mut n = c.clone();
                        n.faults[fi].at = At::Byte(nk);
                        out.push(n);
                    }
                }
            }
        }
        out
    }

    fn rule(&self) -> String {
        "one run = (abstract LP/MIP model with <=6 columns and <=5 rows: E/L/G rows, RHS, RANGES of either sign, integer markers, every BOUNDS type, objective constant, sense absent/inline/own line; layout variant: 3/5-field lines, comments, a line ending exactly at an 8/16/32/64 KiB boundary or a text of exactly that length, blank lines, blanks/tabs, number styles, CRLF, section variants; container: plain, flate2 level 0-9, independent stored-block gzip with optional header fields, or a series of 2-4 gzip members cut anywhere in the text; entry point: load_raw_reader / load_zipped_reader on a simulated stream or load_file / load_file_bytes (+ decode) on the simulated disk; schedule: chunking incl. cuts at line ends, inside number tokens, inside the gzip header/trailer; faults: EINTR, short reads, EIO at byte k or call j, open failure, one flipped container bit; or one one-token corruption). Enumerated part: EIO at every byte offset 0..=len of N files; every single flipped bit of the container of M gzip files. distinct = distinct event-log hash; non-trivial = the model has a column, or a fault fired".into()
    }
    fn assumptions(&self) -> Vec<String> {
        vec![
            "value domains are compared as sets (integer [0,1] == binary); variables and constraints are matched by name since IDs follow hash order".into(),
            "layouts the statement does not settle are not generated: data lines starting with a tab, UP 0 without LO, RANGES 0, negative UI without LI, all columns/rows named OMMX_VAR_<n>/OMMX_CONSTR_<n>, an undeclared row used only in RHS".into(),
            "a flipped bit may be benign (e.g. MTIME/OS header bytes): Ok is accepted when the problem is the expected one".into(),
        ]
    }
    fn real_components(&self) -> Vec<&'static str> {
        vec!["ommx::mps::load_raw_reader / load_zipped_reader / load_file", "mps parser state machine and convert", "flate2 GzDecoder", "std BufReader/File", "tmpfs files for load_file"]
    }
    fn stub_components(&self) -> Vec<&'static str> {
        vec!["the byte stream (SimReader) and libc read/open (fault plan applied, then the real call)", "the producer of the file (independent renderer + gzip writer)"]
    }
    fn required_probes(&self, _t: Tier) -> Vec<&'static str> {
        vec!["fault.eio_read", "fault.eintr_read", "fault.short_read", "fault.open_fail", "probe.malformed_rejected", "probe.err_after_hard_fault", "probe.err_after_bit_flip", "probe.ok_despite_bit_flip", "probe.file_larger_than_bufreader", "probe.container_larger_than_flate2_buffer", "sys.read", "sys.getrandom"]
    }
}

fn corrupt_kind(c: &Corrupt) -> &'static str {
    match c {
        Corrupt::UndeclaredRowInColumns(_) => "undeclared-row-in-columns",
        Corrupt::UndeclaredRowInRanges => "undeclared-row-in-ranges",
        Corrupt::RowType(_) => "row-type",
        Corrupt::BoundType(..) => "bound-type",
        Corrupt::Marker => "marker",
        Corrupt::Sense => "objsense",
        Corrupt::Number(0, _) => "number-in-columns",
        Corrupt::Number(1, _) => "number-in-rhs",
        Corrupt::Number(2, _) => "number-in-ranges",
        Corrupt::Number(..) => "number-in-bounds",
    }
}
