//! C14 — relax / restore only move constraints: operation histories over relax(id, reason, params) /
//! restore(id) / evaluate(state) with known, unknown and wrong-list IDs (the failing operations are the injected
//! faults of this property), checked after every step against a two-list reference model.

use crate::model::exact::{self, assign_of, diff_solution, gen_instance, gen_state, ref_evaluate, v1_state, GenOpts, InstSpec};
use crate::model::lp::F;
use crate::rng::Rng;
use crate::runner::{remove_each, Exec, Prop, SimParams, Tier};
use ommx::v1;
use ommx::Evaluate;
use serde::{Deserialize, Serialize};
use std::collections::BTreeMap;

#[derive(Clone, Debug, Serialize, Deserialize)]
pub enum Op {
    Relax { id: u64, reason: String, params: Vec<(String, String)> },
    Restore { id: u64 },
    Evaluate { state: Vec<(u64, F)> },
}
#[derive(Clone, Debug, Serialize, Deserialize)]
pub struct Case {
    pub inst: InstSpec,
    pub ops: Vec<Op>,
    pub hash_seed: u64,
}

#[derive(Clone, Copy)]
pub struct C14;

struct Model {
    /// id -> constraint message as at step 0
    catalogue: BTreeMap<u64, v1::Constraint>,
    active: Vec<u64>,
    /// id -> (reason, params)
    removed: BTreeMap<u64, (String, BTreeMap<String, String>)>,
}

/// same (ID, function, equality, metadata): the function is compared as a polynomial, so that a change that merely
/// re-represents it (sorted terms, another message variant of the same function) is not an alarm
fn same_constraint(a: &v1::Constraint, b: &v1::Constraint) -> bool {
    use crate::model::poly::Poly;
    let mut a2 = a.clone();
    a2.function = b.function.clone();
    if &a2 != b {
        return false;
    }
    match (Poly::from_function(a.function.as_ref()), Poly::from_function(b.function.as_ref())) {
        (Ok(x), Ok(y)) => x == y,
        _ => a.function == b.function,
    }
}

fn check_invariants(m: &Model, inst: &v1::Instance, step: usize, x: &mut Exec) {
    let mut seen: BTreeMap<u64, u32> = BTreeMap::new();
    for c in &inst.constraints {
        *seen.entry(c.id).or_insert(0) += 1;
        match m.catalogue.get(&c.id) {
            None => x.violate("C14:conservation:unknown-constraint", format!("step {step}: active list contains constraint {} which the instance never had", c.id)),
            Some(orig) => {
                if !same_constraint(orig, c) {
                    x.violate("C14:conservation:constraint-changed", format!("step {step}: active constraint {} differs from its original (function, equality or metadata)", c.id));
                }
            }
        }
        if !m.active.contains(&c.id) {
            x.violate("C14:wrong-list", format!("step {step}: constraint {} is in the active list but the history says it is relaxed", c.id));
        }
    }
    for r in &inst.removed_constraints {
        // entries that never had a constraint are not constraints; their number is checked by the caller
        let Some(c) = &r.constraint else { continue };
        *seen.entry(c.id).or_insert(0) += 1;
        match m.catalogue.get(&c.id) {
            None => x.violate("C14:conservation:unknown-constraint", format!("step {step}: removed list contains constraint {} which the instance never had", c.id)),
            Some(orig) => {
                if !same_constraint(orig, c) {
                    x.violate("C14:conservation:constraint-changed", format!("step {step}: removed constraint {} differs from its original (function, equality or metadata)", c.id));
                }
            }
        }
        match m.removed.get(&c.id) {
            None => x.violate("C14:wrong-list", format!("step {step}: constraint {} is in the removed list but the history says it is active", c.id)),
            Some((reason, params)) => {
                let got: BTreeMap<String, String> = r.removed_reason_parameters.iter().map(|(k, v)| (k.clone(), v.clone())).collect();
                if &r.removed_reason != reason || &got != params {
                    x.violate("C14:reason-not-recorded", format!("step {step}: constraint {}: expected reason {:?} {:?}, message has {:?} {:?}", c.id, reason, params, r.removed_reason, got));
                }
            }
        }
    }
    for (id, n) in &seen {
        if *n != 1 {
            x.violate("C14:conservation:duplicated", format!("step {step}: constraint {id} appears {n} times over both lists"));
        }
    }
    for id in m.catalogue.keys() {
        if !seen.contains_key(id) {
            x.violate("C14:conservation:lost", format!("step {step}: constraint {id} is in neither list"));
        }
    }
}

impl Prop for C14 {
    type Case = Case;
    fn id(&self) -> &'static str {
        "C14"
    }
    fn runs(&self, tier: Tier) -> u64 {
        match tier {
            Tier::Quick => 50_000,
            Tier::Thorough => 3_000_000,
        }
    }
    fn gen(&self, rng: &mut Rng, _tier: Tier, _idx: u64) -> Case {
        let mut inst = gen_instance(rng, &GenOpts { max_vars: 4, max_cons: 4, max_removed: 2, max_degree: 3, deps: true, hints: false });
        // a removed entry whose constraint is unset (wire-legal, accepted by validate()) somewhere in the list
        if rng.chance(1, 10) {
            let pos = rng.usize(inst.removed.len() + 1);
            inst.removed.insert(pos, exact::RemovedSpec { constraint: None, reason: "orphan".into(), parameters: vec![] });
        }
        // mostly the statement's <= 8 operations; now and then a long history
        let n = if rng.chance(1, 30) { 9 + rng.usize(32) } else { 1 + rng.usize(8) };
        let mut ops = vec![];
        // track the expected lists so that IDs can be drawn from active, removed and unknown on purpose
        let mut active: Vec<u64> = inst.constraints.iter().map(|c| c.id).collect();
        let mut removed: Vec<u64> = inst.removed.iter().filter_map(|r| r.constraint.as_ref().map(|c| c.id)).collect();
        for _ in 0..n {
            let pick_id = |rng: &mut Rng, prefer: &Vec<u64>, other: &Vec<u64>| -> u64 {
                match rng.below(6) {
                    0 => *rng.pick(&[6u64, 55, 1234567, u64::MAX]),
                    1 if !other.is_empty() => *rng.pick(other),
                    _ if !prefer.is_empty() => *rng.pick(prefer),
                    _ if !other.is_empty() => *rng.pick(other),
                    _ => 6,
                }
            };
            match rng.below(3) {
                0 => {
                    let id = pick_id(rng, &active, &removed);
                    // parameters: none, one, or several - keys and values are free text (blanks around them, a blank-only
                    // key, keys that differ in blanks only, an empty key, non-ASCII)
                    let params: Vec<(String, String)> = match rng.below(4) {
                        0 | 1 => vec![],
                        2 => vec![("k".to_string(), (*rng.pick(&["v", "", "1", " v ", "\u{3000}v"])).to_string())],
                        _ => {
                            let keys = ["k", " k", "k ", " ", "", "weight[1]", "\u{3000}", "重み"];
                            let n = 1 + rng.usize(4);
                            let mut ks: Vec<&str> = keys.to_vec();
                            rng.shuffle(&mut ks);
                            ks.into_iter().take(n).map(|k| (k.to_string(), (*rng.pick(&["v", "", " 1 ", "two words", "\t"])).to_string())).collect()
                        }
                    };
                    ops.push(Op::Relax { id, reason: (*rng.pick(&["manual", "", "presolve", "penalty_method", " spaced "])).to_string(), params });
                    if let Some(p) = active.iter().position(|a| *a == id) {
                        active.remove(p);
                        removed.push(id);
                    }
                }
                1 => {
                    let id = pick_id(rng, &removed, &active);
                    ops.push(Op::Restore { id });
                    if let Some(p) = removed.iter().position(|a| *a == id) {
                        removed.remove(p);
                        active.push(id);
                    }
                }
                _ => ops.push(Op::Evaluate { state: gen_state(rng, &inst) }),
            }
        }
        if !ops.iter().any(|o| matches!(o, Op::Evaluate { .. })) {
            ops.push(Op::Evaluate { state: gen_state(rng, &inst) });
        }
        Case { inst, ops, hash_seed: rng.next() }
    }
    fn sibling(&self, c: &Case) -> Option<Case> {
        // every sixth case is preceded, in the same run, by another case of the property (generated from its hash seed)
        if c.hash_seed % 6 != 4 {
            return None;
        }
        Some(self.gen(&mut Rng::new(c.hash_seed ^ 0x51B1_1B15), Tier::Quick, 0))
    }

    fn sim_params(&self, c: &Case) -> SimParams {
        SimParams { hash_seed: c.hash_seed, ..Default::default() }
    }

    fn exec(&self, case: &Case, x: &mut Exec) {
        let mut inst = case.inst.to_v1();
        x.nontrivial = case.ops.len() >= 2 && (!inst.constraints.is_empty() || !inst.removed_constraints.is_empty());
        let mut m = Model { catalogue: BTreeMap::new(), active: vec![], removed: BTreeMap::new() };
        for c in &inst.constraints {
            m.catalogue.insert(c.id, c.clone());
            m.active.push(c.id);
        }
        let unset_entries = inst.removed_constraints.iter().filter(|r| r.constraint.is_none()).count();
        if unset_entries > 0 {
            x.count("probe.removed_entry_without_constraint");
        }
        for r in &inst.removed_constraints {
            let Some(c) = r.constraint.as_ref() else { continue };
            m.catalogue.insert(c.id, c.clone());
            m.removed.insert(c.id, (r.removed_reason.clone(), r.removed_reason_parameters.iter().map(|(k, v)| (k.clone(), v.clone())).collect()));
        }
        let original = inst.clone();
        check_invariants(&m, &inst, 0, x);
        for (i, op) in case.ops.iter().enumerate() {
            let step = i + 1;
            x.begin_op(step as u32);
            let before = inst.clone();
            match op {
                Op::Relax { id, reason, params } => {
                    let expect_ok = m.active.contains(id);
                    let r = x.sut(|| inst.relax_constraint(*id, reason.clone(), params.iter().cloned().collect()));
                    match r {
                        Err(p) => {
                            x.api("relax", "panic");
                            x.violate("C14:panic", format!("step {step}: relax_constraint({id}) panicked: {p}"));
                            return;
                        }
                        Ok(r) => {
                            x.api("relax", if r.is_ok() { "Ok" } else { "Err" });
                            match (expect_ok, r.is_ok()) {
                                (true, true) => {
                                    m.active.retain(|a| a != id);
                                    m.removed.insert(*id, (reason.clone(), params.iter().cloned().collect()));
                                    x.count("probe.relax_ok");
                                }
                                (false, false) => {
                                    x.count(if m.removed.contains_key(id) { "probe.relax_refused_already_removed" } else { "probe.relax_refused_unknown" });
                                    if inst != before {
                                        x.violate("C14:failed-op-changed-instance", format!("step {step}: relax_constraint({id}) failed but modified the instance"));
                                    }
                                }
                                (true, false) => x.violate("C14:relax-refused", format!("step {step}: relax_constraint({id}) failed although {id} is an active constraint")),
                                (false, true) => x.violate("C14:relax-accepted-wrong-id", format!("step {step}: relax_constraint({id}) succeeded although {id} is not an active constraint")),
                            }
                        }
                    }
                }
                Op::Restore { id } => {
                    let expect_ok = m.removed.contains_key(id);
                    let r = x.sut(|| inst.restore_constraint(*id));
                    match r {
                        Err(p) => {
                            x.api("restore", "panic");
                            x.violate("C14:panic", format!("step {step}: restore_constraint({id}) panicked: {p}"));
                            return;
                        }
                        Ok(r) => {
                            x.api("restore", if r.is_ok() { "Ok" } else { "Err" });
                            match (expect_ok, r.is_ok()) {
                                (true, true) => {
                                    m.removed.remove(id);
                                    m.active.push(*id);
                                    x.count("probe.restore_ok");
                                }
                                (false, false) => {
                                    x.count(if m.active.contains(id) { "probe.restore_refused_active" } else { "probe.restore_refused_unknown" });
                                    if inst != before {
                                        x.violate("C14:failed-op-changed-instance", format!("step {step}: restore_constraint({id}) failed but modified the instance"));
                                    }
                                }
                                (true, false) => x.violate("C14:restore-refused", format!("step {step}: restore_constraint({id}) failed although {id} is a removed constraint")),
                                (false, true) => x.violate("C14:restore-accepted-wrong-id", format!("step {step}: restore_constraint({id}) succeeded although {id} is not a removed constraint")),
                            }
                        }
                    }
                }
                Op::Evaluate { .. } if unset_entries > 0 => {
                    // a removed entry without constraint cannot be evaluated; the outcome is not judged
                    x.count("probe.evaluate_skipped_unset_entry");
                }
                Op::Evaluate { state } => {
                    let st = v1_state(state);
                    let r = x.sut(|| inst.evaluate(&st));
                    // the reference evaluates the *original* instance: values and overall feasibility are invariant
                    let reference = ref_evaluate(&original, &assign_of(state)).expect("reference model");
                    match r {
                        Err(p) => {
                            x.api("evaluate", "panic");
                            x.violate("C14:panic", format!("step {step}: evaluate panicked: {p}"));
                            return;
                        }
                        Ok(Err(e)) => {
                            x.api("evaluate", "Err");
                            x.violate("C14:evaluate-fails", format!("step {step}: evaluate failed on an in-bound complete state: {e:#}"));
                        }
                        Ok(Ok((sol, _))) => {
                            x.api("evaluate", &format!("feasible={} relaxed={:?} objective={}", sol.feasible, sol.feasible_relaxed, sol.objective));
                            x.count("probe.evaluate");
                            let mut r2 = reference.clone();
                            // relaxed feasibility: conjunction over the currently active list
                            r2.feasible_relaxed = r2.constraints.iter().filter(|c| m.active.contains(&c.id)).all(|c| c.holds);
                            for c in &mut r2.constraints {
                                c.removed = m.removed.contains_key(&c.id);
                            }
                            if r2.feasible != r2.feasible_relaxed {
                                x.count("probe.feasible_differs_from_relaxed");
                            }
                            for (class, detail) in diff_solution(&r2, &sol).expect("reference model") {
                                x.violate(&format!("C14:evaluate:{class}"), format!("step {step}: {detail}"));
                            }
                            // the same through evaluate_samples: all the states of this history as samples (IDs are labels:
                            // several per state, in no particular order), every sample read back through SampleSet::get
                            if case.hash_seed % 3 == 0 {
                                let states: Vec<&Vec<(u64, F)>> = case.ops.iter().filter_map(|o| if let Op::Evaluate { state } = o { Some(state) } else { None }).collect();
                                let pool: [u64; 8] = [u64::MAX, 5, 0, 7, 1 << 32, 3, 1000, 2];
                                let mut samples = v1::Samples::default();
                                let mut label: Vec<(u64, usize)> = vec![];
                                for (k, st) in states.iter().enumerate().take(4) {
                                    let mut e = v1::samples::SamplesEntry::default();
                                    e.state = Some(v1_state(st));
                                    e.ids = if (case.hash_seed >> 8) % 2 == 0 { vec![pool[2 * k], pool[2 * k + 1]] } else { vec![pool[2 * k]] };
                                    for id in &e.ids {
                                        label.push((*id, k));
                                    }
                                    samples.entries.push(e);
                                }
                                x.count("probe.evaluate_samples");
                                match x.sut(|| inst.evaluate_samples(&samples)) {
                                    Err(p) => x.violate("C14:panic", format!("step {step}: evaluate_samples panicked: {p}")),
                                    Ok(Err(e)) => x.violate("C14:evaluate-fails", format!("step {step}: evaluate_samples failed on in-bound complete states: {e:#}")),
                                    Ok(Ok((ss, _))) => {
                                        for (id, k) in &label {
                                            let mut rk = ref_evaluate(&original, &assign_of(states[*k])).expect("reference model");
                                            rk.feasible_relaxed = rk.constraints.iter().filter(|c| m.active.contains(&c.id)).all(|c| c.holds);
                                            for c in &mut rk.constraints {
                                                c.removed = m.removed.contains_key(&c.id);
                                            }
                                            if ss.feasible.get(id) != Some(&rk.feasible) || ss.feasible_relaxed.get(id) != Some(&rk.feasible_relaxed) {
                                                x.violate(
                                                    "C14:evaluate-samples:feasible",
                                                    format!("step {step}: sample {id}: expected feasible={} relaxed={}, the sample set says {:?} / {:?}", rk.feasible, rk.feasible_relaxed, ss.feasible.get(id), ss.feasible_relaxed.get(id)),
                                                );
                                            }
                                            match x.sut(|| ss.get(*id)) {
                                                Err(p) => x.violate("C14:panic", format!("step {step}: SampleSet::get panicked: {p}")),
                                                Ok(Err(e)) => x.violate("C14:evaluate-samples:sample-unreadable", format!("step {step}: sample {id} cannot be read back: {e:#}")),
                                                Ok(Ok(s1)) => {
                                                    for (class, detail) in diff_solution(&rk, &s1).expect("reference model") {
                                                        x.violate(&format!("C14:evaluate-samples:{class}"), format!("step {step}: sample {id}: {detail}"));
                                                    }
                                                    for e in &s1.evaluated_constraints {
                                                        if let Some((reason, _)) = m.removed.get(&e.id) {
                                                            if e.removed_reason.as_ref() != Some(reason) {
                                                                x.violate("C14:evaluate-samples:reason", format!("step {step}: sample {id}: constraint {} reported with reason {:?}, recorded {:?}", e.id, e.removed_reason, reason));
                                                            }
                                                        }
                                                    }
                                                }
                                            }
                                        }
                                    }
                                }
                            }
                            // the reason and metadata reported with each constraint
                            for e in &sol.evaluated_constraints {
                                if let Some((reason, _)) = m.removed.get(&e.id) {
                                    if e.removed_reason.as_ref() != Some(reason) {
                                        x.violate("C14:evaluate:reason", format!("step {step}: constraint {} reported with reason {:?}, recorded {:?}", e.id, e.removed_reason, reason));
                                    }
                                }
                                if let Some(c) = m.catalogue.get(&e.id) {
                                    if c.equality != e.equality || c.name != e.name || c.subscripts != e.subscripts || c.parameters != e.parameters || c.description != e.description {
                                        x.violate("C14:evaluate:metadata", format!("step {step}: constraint {} reported with different equality/metadata", e.id));
                                    }
                                }
                            }
                        }
                    }
                }
            }
            check_invariants(&m, &inst, step, x);
            for part_name in exact::untouched_diff(&before, &inst, true, true) {
                x.violate("C14:untouched-part-changed", format!("step {step}: the operation changed the instance's {part_name}"));
            }
            if before.objective != inst.objective || before.decision_variable_dependency != inst.decision_variable_dependency {
                x.violate("C14:untouched-part-changed", format!("step {step}: the operation changed the objective or the dependencies"));
            }
            if inst.removed_constraints.iter().filter(|r| r.constraint.is_none()).count() != unset_entries {
                x.violate("C14:conservation:lost", format!("step {step}: the number of removed entries without constraint changed"));
            }
            if !x.violations.is_empty() {
                return;
            }
        }
    }

    fn shrink(&self, c: &Case) -> Vec<Case> {
        let mut out = vec![];
        for o in remove_each(&c.ops) {
            out.push(Case { ops: o, ..c.clone() });
        }
        for i in 0..c.inst.constraints.len() {
            let mut n = c.clone();
            n.inst.constraints.remove(i);
            out.push(n);
        }
        for i in 0..c.inst.removed.len() {
            let mut n = c.clone();
            n.inst.removed.remove(i);
            out.push(n);
        }
        if c.inst.objective.is_some() {
            let mut n = c.clone();
            n.inst.objective = None;
            out.push(n);
        }
        if !c.inst.deps.is_empty() {
            let mut n = c.clone();
            n.inst.deps.clear();
            out.push(n);
        }
        for i in 0..c.inst.constraints.len() {
            if c.inst.constraints[i].function != Some(exact::FuncSpec::Constant(F(1.0))) {
                let mut n = c.clone();
                n.inst.constraints[i].function = Some(exact::FuncSpec::Constant(F(1.0)));
                out.push(n);
            }
        }
        out
    }

    fn rule(&self) -> String {
        "one run = (valid instance with 0-4 active and 0-2 removed constraints of degree <=3 in arbitrary representations with metadata, optional dependencies; history of 1-9 operations over relax(id, reason, params) / restore(id) / evaluate(in-bound state), IDs drawn on purpose from the active list, the removed list and unknown IDs; hash seed). After every step: conservation of (id, function, equality, metadata) over both lists, each ID in exactly one list, recorded reasons; failing operations return Err and leave the message == its previous value; every evaluate equals the exact reference evaluation of the step-0 instance, with relaxed feasibility recomputed over the currently active list. distinct = distinct event-log hash (digest of every API result); non-trivial = >=2 operations on an instance with a constraint".into()
    }
    fn assumptions(&self) -> Vec<String> {
        vec!["coefficients and state values are small dyadic rationals so that the reference evaluation is exact (no tolerance)".into(), "instances are valid (unique IDs across both lists)".into()]
    }
    fn real_components(&self) -> Vec<&'static str> {
        vec!["ommx::v1::Instance::relax_constraint / restore_constraint", "Evaluate for Instance (evaluate, dependencies, state completion)"]
    }
    fn stub_components(&self) -> Vec<&'static str> {
        vec!["OS randomness (seeded: hash-map iteration order is a function of the seed)"]
    }
    fn required_probes(&self, _t: Tier) -> Vec<&'static str> {
        vec!["probe.relax_ok", "probe.restore_ok", "probe.relax_refused_already_removed", "probe.relax_refused_unknown", "probe.restore_refused_active", "probe.restore_refused_unknown", "probe.evaluate", "probe.feasible_differs_from_relaxed", "probe.removed_entry_without_constraint"]
    }
}
