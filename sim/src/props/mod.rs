pub mod c03;
pub mod c04;
pub mod c08;
pub mod c14;
pub mod c17;
pub mod c18;
pub mod c19;
pub mod c20;
