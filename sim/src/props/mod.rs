pub mod c18;
