pub mod c17;
pub mod c18;
