pub mod c17;
pub mod c18;
pub mod c19;
pub mod c20;
