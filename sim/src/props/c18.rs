//! C18 — write as MPS, read back, same problem; an acknowledged write is complete.
//! System: `mps::write_file` -> simulated disk (ENOSPC, short writes, EINTR, EIO, open failure) -> `mps::load_file`.

use crate::model::lp::{self, domain, Kind, NormCon, NormLin, NormProblem, F};
use crate::model::msg;
use crate::rng::Rng;
use crate::runner::{remove_each, Exec, Prop, SimParams, Tier};
use crate::simos::{Act, At, Chunk, Dir, Fault};
use ommx::v1;
use serde::{Deserialize, Serialize};

#[derive(Clone, Debug, Serialize, Deserialize)]
pub struct Var {
    pub id: u64,
    pub kind: Kind,
    pub bound: Option<(F, F)>,
}
#[derive(Clone, Debug, Serialize, Deserialize, Default)]
pub struct Lin {
    /// terms as they appear in the message: a variable may be repeated and a coefficient may be zero
    pub terms: Vec<(u64, F)>,
    pub constant: F,
    /// message variant carrying the linear function: 0 Linear, 1 Quadratic without quadratic entries,
    /// 2 Polynomial of degree <= 1, 3 Quadratic with an explicit zero entry
    #[serde(default)]
    pub carrier: u8,
}
impl Default for F {
    fn default() -> Self {
        F(0.0)
    }
}
#[derive(Clone, Debug, Serialize, Deserialize)]
pub struct Con {
    pub id: u64,
    pub eq: bool,
    pub lin: Lin,
    /// encode a term-less function as Function::Constant instead of an empty Linear
    pub as_constant: bool,
}
#[derive(Clone, Debug, Serialize, Deserialize)]
pub enum Nonlin {
    Objective { i: u64, j: u64, c: F },
    Constraint { index: usize, i: u64, j: u64, c: F },
}
#[derive(Clone, Debug, Serialize, Deserialize)]
pub struct LinInst {
    pub vars: Vec<Var>,
    pub objective: Lin,
    pub cons: Vec<Con>,
    pub maximize: bool,
    pub nonlinear: Option<Nonlin>,
}

#[derive(Clone, Debug, Serialize, Deserialize)]
pub struct Case {
    pub inst: LinInst,
    pub hash_seed: u64,
    /// op 0 = write_file, op 1 = load_file under read faults, op 2 = fault-free load (never faulted)
    pub faults: Vec<Fault>,
    pub chunk_r: Chunk,
    pub chunk_w: Chunk,
}

pub const FILE: &str = "out.mps.gz";
pub const MAX_BUDGET: u64 = 449;
pub const BIG_GRID: u64 = 3;

impl LinInst {
    pub fn to_v1(&self) -> v1::Instance {
        let mut inst = v1::Instance::default();
        for v in &self.vars {
            inst.decision_variables.push(msg::dvar(v.id, v.kind.to_v1(), v.bound.map(|(l, u)| (l.0, u.0))));
        }
        let lin = |l: &Lin| msg::linear(&l.terms.iter().map(|(i, c)| (*i, c.0)).collect::<Vec<_>>(), l.constant.0);
        // the same linear function in another legal message variant
        let carry = |l: &Lin| -> v1::Function {
            match l.carrier {
                1 => msg::f_quad(msg::quadratic(&[], Some(lin(l)))),
                2 => {
                    let mut terms: Vec<(Vec<u64>, f64)> = l.terms.iter().map(|(i, c)| (vec![*i], c.0)).collect();
                    terms.push((vec![], l.constant.0));
                    msg::f_poly(msg::polynomial(&terms))
                }
                3 if !l.terms.is_empty() => msg::f_quad(msg::quadratic(&[(l.terms[0].0, l.terms[0].0, 0.0)], Some(lin(l)))),
                _ => msg::f_lin(lin(l)),
            }
        };
        let mut obj = carry(&self.objective);
        if let Some(Nonlin::Objective { i, j, c }) = &self.nonlinear {
            obj = msg::f_quad(msg::quadratic(&[(*i, *j, c.0)], Some(lin(&self.objective))));
        }
        inst.objective = Some(obj);
        for (k, c) in self.cons.iter().enumerate() {
            let mut f = if c.lin.terms.is_empty() && c.as_constant { msg::f_const(c.lin.constant.0) } else { carry(&c.lin) };
            if let Some(Nonlin::Constraint { index, i, j, c: q }) = &self.nonlinear {
                if *index == k {
                    f = msg::f_quad(msg::quadratic(&[(*i, *j, q.0)], Some(lin(&c.lin))));
                }
            }
            let eq = if c.eq { v1::Equality::EqualToZero } else { v1::Equality::LessThanOrEqualToZero };
            inst.constraints.push(msg::constraint(c.id, eq as i32, Some(f)));
        }
        inst.sense = if self.maximize { v1::instance::Sense::Maximize } else { v1::instance::Sense::Minimize } as i32;
        inst
    }

    /// variables the problem uses: those with a non-zero net coefficient in the objective or a constraint
    pub fn used(&self) -> std::collections::BTreeSet<u64> {
        let mut s = std::collections::BTreeSet::new();
        let mut net = |l: &Lin| {
            let mut m: std::collections::BTreeMap<u64, f64> = Default::default();
            for (i, c) in &l.terms {
                *m.entry(*i).or_insert(0.0) += c.0;
            }
            for (i, c) in m {
                if c != 0.0 {
                    s.insert(i);
                }
            }
        };
        net(&self.objective);
        for c in &self.cons {
            net(&c.lin);
        }
        s
    }

    /// the problem the statement says must come back (variables the problem uses only)
    pub fn expected(&self) -> NormProblem {
        let nl = |l: &Lin| {
            let mut n = NormLin::default();
            for (i, c) in &l.terms {
                n.add(&i.to_string(), c.0);
            }
            n.constant = l.constant.0;
            n.prune();
            n
        };
        let used = self.used();
        let mut p = NormProblem { maximize: self.maximize, objective: nl(&self.objective), ..Default::default() };
        for c in &self.cons {
            p.constraints.push(NormCon { key: c.id.to_string(), eq: c.eq, lin: nl(&c.lin) });
        }
        for v in &self.vars {
            if used.contains(&v.id) {
                p.vars.insert(v.id.to_string(), domain(v.kind, v.bound.map(|(l, u)| (l.0, u.0))));
            }
        }
        p
    }
}

pub fn gen_coef(rng: &mut Rng) -> f64 {
    match rng.below(10) {
        // incl. magnitudes whose shortest round-trip decimal form needs 17 significant digits
        0 => *rng.pick(&[0.1, -0.3, 1e-3, 12345.678, -2.5e7, 1e21, 3.0e-9, 18446744073709551615.0, 3.0000000000000004e-8, -1.2345678901234567e-300, 1.7976931348623157e308, 5e-324, 0.1 + 0.2]),
        _ => rng.half(4, true),
    }
}

pub fn gen_bound(rng: &mut Rng, kind: Kind) -> Option<(F, F)> {
    let inf = f64::INFINITY;
    let b = match kind {
        Kind::Bin => match rng.below(8) {
            0..=2 => return None,
            3..=5 => (0.0, 1.0),
            6 => (0.0, 0.0),
            _ => (1.0, 1.0),
        },
        _ => match rng.below(11) {
            0 | 1 => return None,
            // finite bounds of very large magnitude (finite is not infinite, whatever other tools' conventions say)
            10 => {
                let big = [1e30, 2e30, 1e31, 1e100, 2e300, f64::MAX, 9.99e29, 1e20];
                match rng.below(5) {
                    3 => (0.0, -0.0),
                    4 => (-0.0, rng.range(0, 4) as f64),
                    0 => (rng.half(3, false), big[rng.below(8) as usize]),
                    1 => (-big[rng.below(8) as usize], rng.half(3, false)),
                    _ => (-big[rng.below(8) as usize], big[rng.below(8) as usize]),
                }
            }
            2 => (-inf, inf),
            3 => (rng.half(3, false), inf),
            4 => (-inf, rng.half(3, false)),
            5 => {
                let u = -rng.half(3, false).abs() - 0.5;
                (u - rng.range(0, 4) as f64, u)
            }
            6 => (0.0, 1.0),
            7 => (0.0, inf),
            _ => {
                let l = rng.half(3, false);
                (l, l + rng.range(0, 8) as f64 / 2.0)
            }
        },
    };
    Some((F(b.0), F(b.1)))
}

pub fn gen_inst(rng: &mut Rng) -> LinInst {
    let pool: [u64; 12] = [0, 1, 2, 3, 4, 5, 7, 11, 64, 1000, 4294967296, 18446744073709551615];
    let nv = *rng.pick(&[0usize, 1, 1, 2, 2, 3, 3, 4, 5]);
    let mut ids: Vec<u64> = pool.to_vec();
    rng.shuffle(&mut ids);
    ids.truncate(nv);
    let vars: Vec<Var> = ids
        .iter()
        .map(|id| {
            let kind = *rng.pick(&[Kind::Cont, Kind::Cont, Kind::Int, Kind::Bin]);
            Var { id: *id, kind, bound: gen_bound(rng, kind) }
        })
        .collect();
    let gen_lin = |rng: &mut Rng, allow_empty: bool| {
        let mut terms = vec![];
        for v in &vars {
            if rng.chance(1, 2) {
                terms.push((v.id, F(gen_coef(rng))));
            }
        }
        if terms.is_empty() && !allow_empty && !vars.is_empty() {
            terms.push((vars[rng.usize(vars.len())].id, F(gen_coef(rng))));
        }
        // un-normalised but legal: a repeated variable, an explicit zero coefficient
        if !terms.is_empty() && rng.chance(1, 8) {
            let t = terms[rng.usize(terms.len())];
            terms.push((t.0, F(gen_coef(rng))));
        }
        if !vars.is_empty() && rng.chance(1, 10) {
            terms.push((vars[rng.usize(vars.len())].id, F(0.0)));
        }
        rng.shuffle(&mut terms);
        let constant = if rng.chance(1, 2) { 0.0 } else { gen_coef(rng) };
        let carrier = if rng.chance(1, 4) { 1 + rng.below(3) as u8 } else { 0 };
        Lin { terms, constant: F(constant), carrier }
    };
    let objective = gen_lin(rng, true);
    let nc = *rng.pick(&[0usize, 0, 1, 1, 2, 3, 4]);
    let mut cids: Vec<u64> = pool.to_vec();
    rng.shuffle(&mut cids);
    let cons: Vec<Con> = (0..nc).map(|k| Con { id: cids[k], eq: rng.chance(1, 2), lin: gen_lin(rng, true), as_constant: rng.chance(1, 2) }).collect();
    let mut inst = LinInst { vars, objective, cons, maximize: rng.chance(1, 2), nonlinear: None };
    if !inst.vars.is_empty() && rng.chance(1, 10) {
        let i = inst.vars[rng.usize(inst.vars.len())].id;
        let j = inst.vars[rng.usize(inst.vars.len())].id;
        // a quadratic coefficient the SDK itself regards as non-zero (it drops magnitudes below machine epsilon)
        let c = loop {
            let c = gen_coef(rng);
            if c.abs() > 1e-9 {
                break F(c);
            }
        };
        inst.nonlinear = Some(if inst.cons.is_empty() || rng.chance(1, 2) { Nonlin::Objective { i, j, c } } else { Nonlin::Constraint { index: rng.usize(inst.cons.len()), i, j, c } });
    }
    inst
}

/// ~400 variables x 25 dense constraints with coefficients that print long: a compressed file of 100 KB and more
pub fn gen_big_inst(rng: &mut Rng) -> LinInst {
    let nv = 380 + rng.usize(40);
    let vars: Vec<Var> = (0..nv as u64).map(|i| Var { id: i * 3 + 1, kind: *rng.pick(&[Kind::Cont, Kind::Int, Kind::Bin]), bound: if rng.chance(1, 2) { None } else { Some((F(0.0), F(1.0))) } }).collect();
    let lin = |rng: &mut Rng| {
        let mut terms = vec![];
        for v in &vars {
            if rng.chance(9, 10) {
                terms.push((v.id, F((1 + rng.below(100_000)) as f64 / 7.0)));
            }
        }
        Lin { terms, constant: F(rng.half(4, false)), carrier: 0 }
    };
    let objective = lin(rng);
    let cons = (0..25u64).map(|k| Con { id: k * 2, eq: rng.chance(1, 2), lin: lin(rng), as_constant: false }).collect();
    LinInst { vars, objective, cons, maximize: rng.chance(1, 2), nonlinear: None }
}

pub fn gen_write_fault(rng: &mut Rng) -> Fault {
    let (at, act) = match rng.below(10) {
        0..=4 => {
            let k = match rng.below(6) {
                0 => 0,
                1 => 10,
                2 => rng.below(12),
                _ => rng.below(420),
            };
            (At::Byte(k), Act::Enospc)
        }
        5 => (At::Call(rng.below(4)), Act::Eio),
        6 => (At::Byte(rng.below(300)), Act::Eio),
        7 => (At::Call(rng.below(4)), Act::Eintr),
        8 => (At::Call(rng.below(4)), Act::Short(1 + rng.below(16) as u32)),
        _ => return Fault { op: 0, role: FILE.into(), dir: Dir::Open, at: At::Call(0), act: Act::FailOpen(*rng.pick(&[libc::EACCES, libc::ENOSPC, libc::EMFILE])) },
    };
    Fault { op: 0, role: FILE.into(), dir: Dir::W, at, act }
}

pub fn gen_read_fault(rng: &mut Rng, op: u32, role: &str, size_hint: u64) -> Fault {
    let (at, act) = match rng.below(10) {
        0..=4 => (At::Byte(rng.below(size_hint + 2)), Act::Eio),
        5 => (At::Call(rng.below(5)), Act::Eio),
        6 | 7 => (At::Call(rng.below(6)), Act::Eintr),
        8 => (At::Call(rng.below(6)), Act::Short(1 + rng.below(8) as u32)),
        _ => return Fault { op, role: role.into(), dir: Dir::Open, at: At::Call(0), act: Act::FailOpen(*rng.pick(&[libc::EACCES, libc::ENOENT, libc::EMFILE])) },
    };
    Fault { op, role: role.into(), dir: Dir::R, at, act }
}

pub fn gen_chunk(rng: &mut Rng) -> Chunk {
    match rng.below(6) {
        0..=2 => Chunk::Whole,
        3 => Chunk::One,
        4 => Chunk::Rand { max: 1 + rng.below(7) as u32, seed: rng.next() },
        _ => Chunk::Rand { max: 1 + rng.below(64) as u32, seed: rng.next() },
    }
}

#[derive(Clone, Copy)]
pub struct C18;

impl Prop for C18 {
    type Case = Case;
    fn id(&self) -> &'static str {
        "C18"
    }
    fn runs(&self, tier: Tier) -> u64 {
        match tier {
            Tier::Quick => 20_000,
            Tier::Thorough => 1_000_000,
        }
    }
    fn gen(&self, rng: &mut Rng, _tier: Tier, _idx: u64) -> Case {
        let mut inst = gen_inst(rng);
        // now and then an instance whose compressed file outgrows flate2's 32 KiB output buffer, so that the
        // encoder writes to the disk while the text is still being produced (not only in finish())
        let big = rng.chance(1, 150);
        if big {
            inst = gen_big_inst(rng);
        }
        let mut faults = vec![];
        let mode = rng.below(20);
        if (8..13).contains(&mode) || mode >= 18 {
            faults.push(gen_write_fault(rng));
            if rng.chance(1, 4) {
                faults.push(gen_write_fault(rng));
            }
        }
        if (13..18).contains(&mode) || mode >= 18 {
            faults.push(gen_read_fault(rng, 1, FILE, 400));
            if rng.chance(1, 4) {
                faults.push(gen_read_fault(rng, 1, FILE, 400));
            }
        }
        let (mut chunk_r, mut chunk_w) = if mode < 4 { (Chunk::Whole, Chunk::Whole) } else { (gen_chunk(rng), gen_chunk(rng)) };
        if big {
            // positions scaled to the size of the file (about 100-200 KB); no byte-wise chunking of big files
            for f in &mut faults {
                if let At::Byte(k) = f.at {
                    f.at = At::Byte(k * 400);
                }
            }
            if !matches!(chunk_r, Chunk::Whole) {
                chunk_r = Chunk::Rand { max: 8192, seed: rng.next() };
            }
            if !matches!(chunk_w, Chunk::Whole) {
                chunk_w = Chunk::Rand { max: 8192, seed: rng.next() };
            }
        }
        Case { inst, hash_seed: rng.next(), faults, chunk_r, chunk_w }
    }
    fn enum_plan(&self, tier: Tier, seed: u64) -> Vec<(u64, u64)> {
        // (a) the disk fills up after every possible byte budget 0..=MAX_BUDGET of N small instances (their
        //     compressed files are 100-420 bytes long; a budget beyond the size never fires);
        // (b) for M big instances (compressed file > 32 KiB, so the encoder writes while the text is still being
        //     produced) one budget inside each of the encoder's transfers. The group seed's lowest bit tells which.
        let (n, m) = match tier {
            Tier::Quick => (12, 150),
            Tier::Thorough => (1000, 4000),
        };
        let mut plan: Vec<(u64, u64)> = (0..n).map(|i| (MAX_BUDGET + 1, crate::rng::mix(&[seed, 0xC18, i]) & !1)).collect();
        plan.extend((0..m).map(|i| (BIG_GRID, crate::rng::mix(&[seed, 0xB18, i]) | 1)));
        plan
    }
    fn enum_case(&self, gs: u64, k: u64) -> Case {
        let mut rng = Rng::new(gs);
        if gs & 1 == 1 {
            let inst = gen_big_inst(&mut rng);
            // the encoder reaches the disk only when its 32 KiB buffer is full: one budget inside each of those
            // transfers (which entry of the text is being written at that moment differs from instance to instance)
            let faults = vec![Fault { op: 0, role: FILE.into(), dir: Dir::W, at: At::Byte(k * 32768 + 1000), act: if k % 5 == 4 { Act::Eio } else { Act::Enospc } }];
            return Case { inst, hash_seed: rng.next(), faults, chunk_r: Chunk::Whole, chunk_w: Chunk::Whole };
        }
        let mut inst = gen_inst(&mut rng);
        inst.nonlinear = None;
        let faults = vec![Fault { op: 0, role: FILE.into(), dir: Dir::W, at: At::Byte(k), act: Act::Enospc }];
        Case { inst, hash_seed: rng.next(), faults, chunk_r: Chunk::Whole, chunk_w: if k % 3 == 0 { Chunk::Rand { max: 7, seed: gs } } else { Chunk::Whole } }
    }
    fn sibling(&self, c: &Case) -> Option<Case> {
        // every sixth case is preceded, in the same run, by another case of the property (generated from its hash seed)
        if c.hash_seed % 6 != 4 {
            return None;
        }
        Some(self.gen(&mut Rng::new(c.hash_seed ^ 0x51B1_1B15), Tier::Quick, 0))
    }

    fn sim_params(&self, c: &Case) -> SimParams {
        SimParams { faults: c.faults.clone(), chunk_r: c.chunk_r.clone(), chunk_w: c.chunk_w.clone(), hash_seed: c.hash_seed, ..Default::default() }
    }

    fn exec(&self, case: &Case, x: &mut Exec) {
        let mut inst = case.inst.to_v1();
        // free text of the message (not part of the problem: the MPS file need not carry it, but it must not get in the
        // way either) - several lines, lines that look like MPS syntax
        if case.hash_seed % 5 == 0 {
            let mut d = v1::instance::Description::default();
            d.name = Some("two\nlines".into());
            d.description = Some("first line\nROWS\n N  COST\nENDATA\n* not a comment\r\nlast".into());
            d.authors = vec!["A\nB".into()];
            inst.description = Some(d);
            x.count("probe.multi_line_description");
        }
        let path = x.path(FILE);
        let has_write_fault = case.faults.iter().any(|f| f.op == 0);
        let has_read_fault = case.faults.iter().any(|f| f.op == 1);
        x.nontrivial = !case.inst.cons.is_empty() || !case.inst.objective.terms.is_empty();

        // the path may already hold a (longer) file: write_file replaces it
        if case.hash_seed % 4 == 0 {
            x.begin_op(99);
            let junk: Vec<u8> = (0..1500u32).map(|i| (i.wrapping_mul(2654435761) >> 24) as u8).collect();
            std::fs::write(&path, if case.hash_seed % 8 == 0 { junk } else { crate::model::gz::pack(&crate::model::gz::Gz::Flate(6), &junk) }).expect("harness: pre-existing file");
            x.count("probe.path_already_holds_a_file");
        }
        // an earlier call on the same thread - refused, failing at open, or successful - must not leak into this one
        // (state kept between calls: scratch buffers, caches)
        match case.hash_seed % 7 {
            1 | 2 | 3 => {
                x.begin_op(98);
                let mut other = v1::Instance::default();
                other.sense = v1::instance::Sense::Minimize as i32;
                other.decision_variables.push(crate::model::msg::dvar(77, v1::decision_variable::Kind::Continuous as i32, Some((0.0, 4.0))));
                let kind = case.hash_seed % 7;
                other.objective = Some(if kind == 1 { crate::model::msg::f_quad(crate::model::msg::quadratic(&[(77, 77, 1.0)], None)) } else { crate::model::msg::f_lin(crate::model::msg::linear(&[(77, 2.5)], 1.0)) });
                let target = if kind == 2 {
                    std::fs::write(x.path("blocker"), b"x").expect("harness: blocker file");
                    x.path("blocker").join("prior.mps.gz")
                } else {
                    x.path("prior.mps.gz")
                };
                let r = x.quietly(|x| x.sut(|| ommx::mps::write_file(&other, &target)));
                match (kind, r) {
                    (_, Err(p)) => x.violate("C18:write_file:panic", format!("an earlier write_file call panicked: {p}")),
                    (3, Ok(Err(e))) => x.violate("C18:write-fails-without-hard-fault", format!("an earlier, fault-free write_file of a one-variable instance returned Err({e})")),
                    (1 | 2, Ok(Ok(()))) => x.violate(if kind == 1 { "C18:nonlinear-accepted" } else { "C18:write-ok-on-unopenable-path" }, "an earlier write_file call that cannot succeed returned Ok".into()),
                    _ => {}
                }
                x.count("probe.earlier_call_on_the_same_thread");
            }
            _ => {}
        }
        // op 0: write
        x.begin_op(0);
        let w = x.sut(|| ommx::mps::write_file(&inst, &path));
        let w_hard = x.hard_fired(0);
        let w_transient = x.transient_fired(0);
        let w_eintr = case.faults.iter().any(|f| f.op == 0 && f.act == Act::Eintr);
        let written = x.bytes_so_far(FILE, Dir::W);
        let w = match w {
            Err(p) => {
                x.api("write_file", "panic");
                x.violate("C18:write_file:panic", format!("write_file panicked: {p}"));
                return;
            }
            Ok(r) => r,
        };
        x.api("write_file", &match &w { Ok(()) => "Ok".to_string(), Err(e) => format!("Err({e})") });
        if let Some(nl) = &case.inst.nonlinear {
            x.count("probe.nonlinear_refusal_case");
            match &w {
                Ok(()) => x.violate("C18:nonlinear-accepted", format!("write_file returned Ok for an instance with a nonlinear part {:?}", nl)),
                Err(e) => {
                    let m = e.to_string();
                    let named = match nl {
                        Nonlin::Objective { .. } => m.to_lowercase().contains("objective"),
                        Nonlin::Constraint { index, .. } => m.contains(&case.inst.cons[*index].id.to_string()),
                    };
                    // an injected fault may legitimately win the race to be reported first
                    if !named && !(w_hard || (w_eintr && w_transient)) {
                        x.violate("C18:nonlinear-error-not-naming-offender", format!("error text {:?} does not name {:?}", m, nl));
                    }
                }
            }
            return;
        }
        match &w {
            Err(e) => {
                if w_hard {
                    x.count("probe.write_err_after_hard_fault");
                } else if w_eintr && w_transient {
                    x.count("probe.write_err_after_eintr");
                } else {
                    x.violate("C18:write-fails-without-hard-fault", format!("write_file returned Err({e}) although no hard fault was injected (faults fired: transient={w_transient})"));
                }
                return;
            }
            Ok(()) => {}
        }
        if has_write_fault {
            x.count(if w_hard { "probe.write_ack_after_hard_fault" } else { "probe.write_ack_with_unfired_or_transient_fault" });
        }
        x.add("probe.bytes_written", written);
        if written > 32768 {
            x.count("probe.file_larger_than_flate2_buffer");
        }

        // op 2: acknowledged => complete: a fault-free read of the file now on the disk must give the problem back
        x.begin_op(2);
        let expected = case.inst.expected();
        let clean = x.sut(|| ommx::mps::load_file(&path));
        let prefix = if w_hard { "C18:ack-incomplete" } else { "C18:roundtrip" };
        let clean_ok = match clean {
            Err(p) => {
                x.api("load_file(clean)", "panic");
                x.violate(&format!("{prefix}:load-panic"), format!("write_file returned Ok ({} bytes reached the disk); load_file of the result panicked: {p}", written));
                false
            }
            Ok(Err(e)) => {
                x.api("load_file(clean)", &format!("Err({e})"));
                x.violate(&format!("{prefix}:load-error"), format!("write_file returned Ok ({} bytes reached the disk); load_file of the result fails: {e}", written));
                false
            }
            Ok(Ok(loaded)) => {
                x.api("load_file(clean)", "Ok");
                match lp::norm_instance(&loaded, false) {
                    Err(e) => {
                        x.violate(&format!("{prefix}:malformed"), format!("loaded instance is not a linear problem: {e}"));
                        false
                    }
                    Ok(got) => {
                        let d = lp::diff(&expected, &got, true);
                        for (class, detail) in &d {
                            x.violate(&format!("{prefix}:{class}"), format!("write_file returned Ok ({} bytes reached the disk); {detail}", written));
                        }
                        d.is_empty()
                    }
                }
            }
        };
        if !clean_ok || !has_read_fault {
            return;
        }

        // op 1: read under faults: Err or the same problem
        x.begin_op(1);
        let r = x.sut(|| ommx::mps::load_file(&path));
        let r_hard = x.hard_fired(1);
        match r {
            Err(p) => {
                x.api("load_file(faulty)", "panic");
                x.violate("C18:load-panic-under-fault", format!("load_file panicked under read faults: {p}"));
            }
            Ok(Err(e)) => {
                x.api("load_file(faulty)", &format!("Err({e})"));
                if r_hard {
                    x.count("probe.read_err_after_hard_fault");
                } else {
                    x.violate("C18:read-fails-under-transient-faults", format!("load_file returned Err({e}) although only transient faults (short reads, EINTR) were injected"));
                }
            }
            Ok(Ok(loaded)) => {
                x.api("load_file(faulty)", "Ok");
                if r_hard {
                    x.count("probe.read_ok_despite_hard_fault");
                }
                match lp::norm_instance(&loaded, false) {
                    Err(e) => x.violate("C18:read-fault-wrong-problem:malformed", format!("{e}")),
                    Ok(got) => {
                        for (class, detail) in lp::diff(&expected, &got, true) {
                            x.violate(&format!("C18:read-fault-wrong-problem:{class}"), format!("load_file returned Ok under read faults (hard fault fired={r_hard}) with a different problem: {detail}"));
                        }
                    }
                }
            }
        }
    }

    fn shrink(&self, c: &Case) -> Vec<Case> {
        let mut out = vec![];
        if c.inst.vars.len() > 20 {
            // a big instance: halve it first
            let keep: std::collections::BTreeSet<u64> = c.inst.vars.iter().take(c.inst.vars.len() / 2).map(|v| v.id).collect();
            let mut n = c.clone();
            n.inst.vars.retain(|v| keep.contains(&v.id));
            n.inst.objective.terms.retain(|t| keep.contains(&t.0));
            for k in &mut n.inst.cons {
                k.lin.terms.retain(|t| keep.contains(&t.0));
            }
            out.push(n);
            let mut n = c.clone();
            n.inst.cons.truncate(c.inst.cons.len() / 2);
            out.push(n);
            return out;
        }
        for f in remove_each(&c.faults) {
            out.push(Case { faults: f, ..c.clone() });
        }
        if !c.chunk_r.is_whole() {
            out.push(Case { chunk_r: Chunk::Whole, ..c.clone() });
        }
        if !c.chunk_w.is_whole() {
            out.push(Case { chunk_w: Chunk::Whole, ..c.clone() });
        }
        for i in 0..c.inst.cons.len() {
            if matches!(&c.inst.nonlinear, Some(Nonlin::Constraint { .. })) {
                break;
            }
            let mut n = c.clone();
            n.inst.cons.remove(i);
            out.push(n);
        }
        for i in 0..c.inst.vars.len() {
            let id = c.inst.vars[i].id;
            if let Some(Nonlin::Objective { i: a, j: b, .. }) | Some(Nonlin::Constraint { i: a, j: b, .. }) = &c.inst.nonlinear {
                if *a == id || *b == id {
                    continue;
                }
            }
            let mut n = c.clone();
            n.inst.vars.remove(i);
            n.inst.objective.terms.retain(|t| t.0 != id);
            for k in &mut n.inst.cons {
                k.lin.terms.retain(|t| t.0 != id);
            }
            out.push(n);
        }
        for i in 0..c.inst.objective.terms.len() {
            let mut n = c.clone();
            n.inst.objective.terms.remove(i);
            out.push(n);
        }
        for k in 0..c.inst.cons.len() {
            for i in 0..c.inst.cons[k].lin.terms.len() {
                let mut n = c.clone();
                n.inst.cons[k].lin.terms.remove(i);
                out.push(n);
            }
            if c.inst.cons[k].lin.constant.0 != 0.0 {
                let mut n = c.clone();
                n.inst.cons[k].lin.constant = F(0.0);
                out.push(n);
            }
        }
        if c.inst.objective.constant.0 != 0.0 {
            let mut n = c.clone();
            n.inst.objective.constant = F(0.0);
            out.push(n);
        }
        for (fi, f) in c.faults.iter().enumerate() {
            if let At::Byte(k) = f.at {
                for nk in [0, k / 2, k.saturating_sub(1)] {
                    if nk < k {
                        let mut n = c.clone();
                        n.faults[fi].at = At::Byte(nk);
                        out.push(n);
                    }
                }
            }
        }
        // simplify numbers
        let mut n = c.clone();
        let mut changed = false;
        for t in n.inst.objective.terms.iter_mut().chain(n.inst.cons.iter_mut().flat_map(|k| k.lin.terms.iter_mut())) {
            if t.1 .0 != 1.0 {
                t.1 = F(1.0);
                changed = true;
            }
        }
        if changed {
            out.push(n);
        }
        out
    }

    fn rule(&self) -> String {
        "one run = (linear instance from the seeded generator: 0-5 variables of all kinds with absent/finite/half-infinite/infinite/negative bounds, 0-4 constraints incl. constant-only, non-contiguous IDs, either sense, 10% with one nonlinear part; write-side fault plan: ENOSPC after a byte budget, EIO, EINTR, short writes, open failure; read-side plan: EIO at byte k, EINTR, short reads, open failure; chunking of every transfer; hash seed). Enumerated part: ENOSPC after every byte budget 0..=449 for each of N small instances; one budget inside each 32 KiB transfer of the encoder for each of M big instances (compressed file > 32 KiB). distinct = distinct FNV hash of the event log (every simulated system call with role, size and result; digest of every API result); non-trivial = the instance has at least one term or constraint, or a fault fired".into()
    }
    fn assumptions(&self) -> Vec<String> {
        vec![
            "libc interposition covers every entry point std/flate2 use for file I/O on this platform (per-kind syscall counters are part of the evidence)".into(),
            "value domains are compared as sets: integer [0,1] and binary [0,1] are the same domain".into(),
            "after a write-side EINTR an Err from write_file is accepted (flate2's finish does not retry); short writes must succeed".into(),
            "power-loss durability (fsync) is outside the statement and not simulated".into(),
        ]
    }
    fn real_components(&self) -> Vec<&'static str> {
        vec!["ommx::mps::write_file", "ommx::mps::load_file", "flate2 GzEncoder/GzDecoder", "std::fs::File, BufReader", "tmpfs file system (real files)"]
    }
    fn stub_components(&self) -> Vec<&'static str> {
        vec!["libc read/write/open/close/getrandom/clock_gettime entry points (simulated: fault plan applied, then the real system call)"]
    }
    fn required_probes(&self, _t: Tier) -> Vec<&'static str> {
        vec!["fault.enospc", "fault.eio_read", "fault.eintr_read", "fault.short_read", "fault.short_write", "fault.open_fail", "probe.nonlinear_refusal_case", "probe.write_err_after_hard_fault", "probe.read_err_after_hard_fault", "probe.file_larger_than_flate2_buffer", "probe.path_already_holds_a_file", "sys.write", "sys.read", "sys.getrandom"]
    }
}
