//! C19 — QPLIB files are read as the problem they describe, on the simulated disk / a simulated stream:
//! short reads, EINTR, EIO at byte k, truncation at byte k (the file a crashed writer or copy left behind),
//! one-token corruptions.

use crate::model::lp::domain_of_v1;
use crate::model::poly::Poly;
use crate::model::qplib::{gen_layout, gen_model, QCorrupt, QpLayout, QpModel};
use crate::props::c18::gen_read_fault;
use crate::rng::Rng;
use crate::runner::{remove_each, Exec, Prop, SimParams, Tier};
use crate::simos::{Act, At, Chunk, Dir, Fault, SimReader};
use ommx::v1;
use serde::{Deserialize, Serialize};
use std::collections::BTreeMap;

#[derive(Clone, Copy, Debug, Serialize, Deserialize, PartialEq, Eq)]
pub enum Entry {
    /// qplib::load_file on the simulated disk (the only public route to an Instance)
    File,
    /// QplibFile::from_reader on a simulated stream (parsed tables), compared with the fault-free tables
    Reader,
}

#[derive(Clone, Debug, Serialize, Deserialize)]
pub struct Case {
    pub model: QpModel,
    pub layout: QpLayout,
    pub corrupt: Option<QCorrupt>,
    /// keep only the first k bytes of the file
    pub truncate: Option<u64>,
    pub entry: Entry,
    pub faults: Vec<Fault>,
    pub chunk_r: Chunk,
    pub hash_seed: u64,
    /// the file route goes through load_file_bytes (+ decode) instead of load_file
    #[serde(default)]
    pub via_bytes: bool,
}

pub const FILE: &str = "in.qplib";
pub const STREAM: &str = "input";

fn tables_digest(q: &ommx::qplib::QplibFile) -> String {
    fn m<K: Ord + std::fmt::Debug + Clone, V: std::fmt::Debug + Clone>(h: &std::collections::HashMap<K, V>) -> BTreeMap<K, V> {
        h.iter().map(|(k, v)| (k.clone(), v.clone())).collect()
    }
    format!(
        "{} {} {:?} {} {} {:?} q0={:?} b0={:?} c={:?} qs={:?} bs={:?} cl={:?} cu={:?} l={:?} u={:?} inf={:?} db0={:?} x={:?}/{:?} y={:?}/{:?} z={:?}/{:?} vn={:?} cn={:?}",
        q.name,
        q.problem_type,
        q.sense,
        q.num_vars,
        q.num_constraints,
        q.var_types,
        m(&q.q0_non_zeroes),
        m(&q.b0_non_defaults),
        q.obj_constant,
        q.qs_non_zeroes.iter().map(m).collect::<Vec<_>>(),
        q.bs_non_zeroes.iter().map(m).collect::<Vec<_>>(),
        q.constr_lower_cs,
        q.constr_upper_cs,
        q.lower_bounds,
        q.upper_bounds,
        q.infinity_threshold,
        q.default_b0,
        q.default_starting_x,
        m(&q.starting_x),
        q.default_starting_y,
        m(&q.starting_y),
        q.default_starting_z,
        m(&q.starting_z),
        m(&q.var_names),
        m(&q.constr_names)
    )
}

/// (class, detail) differences between the loaded instance and the expected problem
fn compare(model: &QpModel, inst: &v1::Instance) -> Result<Vec<(String, String)>, String> {
    let exp = model.expected()?;
    let mut out = vec![];
    let maximize = inst.sense == v1::instance::Sense::Maximize as i32;
    if inst.sense != v1::instance::Sense::Maximize as i32 && inst.sense != v1::instance::Sense::Minimize as i32 {
        out.push(("sense".to_string(), format!("sense field is {}", inst.sense)));
    } else if maximize != exp.maximize {
        out.push(("sense".to_string(), format!("expected maximize={} got {}", exp.maximize, maximize)));
    }
    match Poly::from_function(inst.objective.as_ref()) {
        Err(e) => out.push(("objective".into(), format!("objective has a coefficient the file cannot have produced: {e}"))),
        Ok(p) => {
            if p != exp.objective {
                let quad_only = |p: &Poly| Poly(p.0.iter().filter(|(k, _)| k.len() == 2).map(|(k, c)| (k.clone(), *c)).collect());
                let class = if quad_only(&p) != quad_only(&exp.objective) { "objective-quadratic" } else { "objective-linear" };
                out.push((class.into(), format!("expected [{}] got [{}]", exp.objective.show(), p.show())));
            }
        }
    }
    if inst.decision_variables.len() != exp.vars.len() {
        out.push(("variable-count".into(), format!("expected {} variables got {}", exp.vars.len(), inst.decision_variables.len())));
    }
    let mut seen = std::collections::BTreeSet::new();
    for d in &inst.decision_variables {
        if !seen.insert(d.id) {
            out.push(("variable-id".into(), format!("duplicate variable id {}", d.id)));
            continue;
        }
        let Some(e) = exp.vars.get(d.id as usize) else {
            out.push(("variable-id".into(), format!("variable id {} out of range", d.id)));
            continue;
        };
        match domain_of_v1(d) {
            Err(m) => out.push(("variable-kind".into(), m)),
            Ok(g) => {
                if g.int != e.dom.int {
                    out.push(("variable-kind".into(), format!("variable {}: expected integer={} got {}", d.id, e.dom.int, g.int)));
                }
                if g.lo != e.dom.lo || g.hi != e.dom.hi {
                    out.push(("variable-bounds".into(), format!("variable {}: expected [{}, {}] got [{}, {}]", d.id, e.dom.lo, e.dom.hi, g.lo, g.hi)));
                }
            }
        }
        // a variable the file gives no name keeps whatever name (or none) the reader chooses
        if e.name.is_some() && d.name != e.name {
            out.push(("variable-name".into(), format!("variable {}: expected name {:?} got {:?}", d.id, e.name, d.name)));
        }
    }
    // constraints: a multiset of `poly <= 0`, IDs unique
    let mut ids = std::collections::BTreeSet::new();
    let mut got: Vec<Poly> = vec![];
    for c in &inst.constraints {
        if !ids.insert(c.id) {
            out.push(("constraint-id".into(), format!("duplicate constraint id {}", c.id)));
        }
        if c.equality != v1::Equality::LessThanOrEqualToZero as i32 {
            out.push(("constraint-equality".into(), format!("constraint {} is not a <=0 constraint", c.id)));
        }
        match Poly::from_function(c.function.as_ref()) {
            Err(e) => out.push(("constraint-function".into(), format!("constraint {}: {e}", c.id))),
            Ok(p) => got.push(p),
        }
    }
    let mut missing = vec![];
    for e in &exp.constraints {
        if let Some(i) = got.iter().position(|g| g == e) {
            got.remove(i);
        } else {
            missing.push(e.show());
        }
    }
    if !missing.is_empty() || !got.is_empty() {
        let quad_only = |p: &Poly| p.0.iter().any(|(k, _)| k.len() == 2);
        let class = if exp.constraints.len() != inst.constraints.len() {
            "constraint-count"
        } else if exp.constraints.iter().any(quad_only) {
            "constraint-function-quadratic"
        } else {
            "constraint-function"
        };
        out.push((class.into(), format!("expected constraints not found: {:?}; unexpected constraints: {:?}", missing, got.iter().map(|g| g.show()).collect::<Vec<_>>())));
    }
    Ok(out)
}

/// the line number an error text carries: the integer following the last occurrence of the word "line"
/// (whatever the surrounding wording), else None
fn line_of_error(msg: &str) -> Option<usize> {
    let lower = msg.to_lowercase();
    let i = lower.rfind("line")?;
    let rest = &msg[i + 4..];
    let digits: String = rest.chars().skip_while(|c| !c.is_ascii_digit()).take_while(|c| c.is_ascii_digit()).collect();
    if rest.chars().take_while(|c| !c.is_ascii_digit()).count() > 4 {
        return None;
    }
    digits.parse().ok()
}

#[derive(Clone, Copy)]
pub struct C19;

impl C19 {
    fn base_case(&self, rng: &mut Rng) -> Case {
        let model = gen_model(rng);
        let layout = gen_layout(rng);
        Case { model, layout, corrupt: None, truncate: None, entry: Entry::File, faults: vec![], chunk_r: Chunk::Whole, hash_seed: rng.next(), via_bytes: false }
    }
}

impl Prop for C19 {
    type Case = Case;
    fn id(&self) -> &'static str {
        "C19"
    }
    fn runs(&self, tier: Tier) -> u64 {
        match tier {
            Tier::Quick => 40_000,
            Tier::Thorough => 1_000_000,
        }
    }
    fn gen(&self, rng: &mut Rng, _tier: Tier, _idx: u64) -> Case {
        let mut c = self.base_case(rng);
        if rng.chance(1, 40) {
            c.layout.padding_kb = *rng.pick(&[9u8, 20, 33]);
        }
        if rng.chance(1, 30) {
            c.layout.long_line_kb = *rng.pick(&[9u8, 17, 33, 70]);
        }
        if rng.chance(1, 25) {
            c.layout.align = Some(crate::model::align::Align { line: rng.below(400) as u16, boundary: *rng.pick(&[0u8, 0, 0, 1, 2, 3]), variant: rng.below(3) as u8 });
        }
        let len = c.model.render(&c.layout, None).text.len() as u64;
        c.entry = if rng.chance(1, 4) { Entry::Reader } else { Entry::File };
        c.via_bytes = c.entry == Entry::File && rng.chance(1, 4);
        let role = if c.entry == Entry::File { FILE } else { STREAM };
        let mode = rng.below(20);
        if mode >= 3 {
            c.chunk_r = match rng.below(6) {
                0 | 1 => Chunk::Whole,
                2 => Chunk::One,
                3 => Chunk::Rand { max: 1 + rng.below(5) as u32, seed: rng.next() },
                _ => Chunk::Rand { max: 1 + rng.below(100) as u32, seed: rng.next() },
            };
        }
        if c.layout.padding_kb > 0 || c.layout.align.is_some() || c.layout.long_line_kb > 0 {
            if let Chunk::One = c.chunk_r {
                c.chunk_r = Chunk::Rand { max: 4096, seed: rng.next() };
            }
        }
        match mode {
            0..=5 => {}
            6..=8 => {
                for _ in 0..1 + rng.below(3) {
                    let act = if rng.chance(2, 3) { Act::Eintr } else { Act::Short(1 + rng.below(6) as u32) };
                    let at = if rng.chance(1, 2) { At::Call(rng.below(12)) } else { At::Byte(rng.below(len + 1)) };
                    c.faults.push(Fault { op: 0, role: role.into(), dir: Dir::R, at, act });
                }
            }
            9..=11 => {
                c.faults.push(gen_read_fault(rng, 0, role, len));
                if c.entry != Entry::File {
                    c.faults.retain(|f| f.dir != Dir::Open);
                    if c.faults.is_empty() {
                        c.faults.push(Fault { op: 0, role: role.into(), dir: Dir::R, at: At::Byte(rng.below(len + 1)), act: Act::Eio });
                    }
                }
            }
            12..=15 => c.truncate = Some(rng.below(len + 1)),
            _ => {
                c.corrupt = Some(match rng.below(5) {
                    4 => QCorrupt::IndexZero(rng.below(64) as u32),
                    3 => QCorrupt::CountBeyondFile(rng.below(64) as u32, rng.below(4) as u8),
                    0 => QCorrupt::TypeCode(rng.below(3) as u8),
                    1 => QCorrupt::Count(rng.below(64) as u32),
                    _ => QCorrupt::Number(rng.below(64) as u32),
                });
            }
        }
        c
    }

    fn enum_plan(&self, tier: Tier, seed: u64) -> Vec<(u64, u64)> {
        // (a) truncation at *every* byte of N files (the file as a crashed writer or an interrupted copy left it)
        // (b) *every* one-token corruption of M files: each type-code letter, each count, each number, each entry
        //     count replaced by each of the four counts beyond the file. The group seed's lowest bit tells which.
        let (n, m) = match tier {
            Tier::Quick => (30, 60),
            Tier::Thorough => (5000, 20000),
        };
        let mut plan: Vec<(u64, u64)> = (0..n)
            .map(|i| {
                let gs = crate::rng::mix(&[seed, 0xC19, i]) & !1;
                let c = self.base_case(&mut Rng::new(gs));
                (c.model.render(&c.layout, None).text.len() as u64, gs)
            })
            .collect();
        for i in 0..m {
            let gs = crate::rng::mix(&[seed, 0xC19C, i]) | 1;
            let c = self.base_case(&mut Rng::new(gs));
            let (counts, entry_counts, values, indices) = c.model.render(&c.layout, None).kinds;
            plan.push(((3 + counts + values + 4 * entry_counts + indices) as u64, gs));
        }
        plan
    }
    fn enum_case(&self, gs: u64, k: u64) -> Case {
        let mut c = self.base_case(&mut Rng::new(gs));
        if gs & 1 == 0 {
            c.truncate = Some(k);
            return c;
        }
        let (counts, entry_counts, values, _indices) = c.model.render(&c.layout, None).kinds;
        let (counts, values, entry_counts) = (counts as u64, values as u64, entry_counts as u64);
        c.corrupt = Some(if k < 3 {
            QCorrupt::TypeCode(k as u8)
        } else if k < 3 + counts {
            QCorrupt::Count((k - 3) as u32)
        } else if k < 3 + counts + values {
            QCorrupt::Number((k - 3 - counts) as u32)
        } else if k < 3 + counts + values + 4 * entry_counts {
            let j = k - 3 - counts - values;
            QCorrupt::CountBeyondFile((j / 4) as u32, (j % 4) as u8)
        } else {
            QCorrupt::IndexZero((k - 3 - counts - values - 4 * entry_counts) as u32)
        });
        c
    }

    fn sibling(&self, c: &Case) -> Option<Case> {
        // every sixth case is preceded, in the same run, by another case of the property (generated from its hash seed)
        if c.hash_seed % 6 != 4 {
            return None;
        }
        if c.hash_seed % 12 == 4 {
            // a close relative: the same file but for one digit of a few numbers (same path, same length, same names)
            let mut s = c.clone();
            let bump = |f: &mut crate::model::lp::F| f.0 = if f.0.abs() >= 1.0 && f.0.abs() < 8.0 { f.0 + f.0.signum() } else { f.0 };
            bump(&mut s.model.b0_default);
            bump(&mut s.model.q0_const);
            for e in &mut s.model.b0 {
                bump(&mut e.1);
            }
            for e in &mut s.model.bs {
                bump(&mut e.2);
            }
            s.corrupt = None;
            s.truncate = None;
            return Some(s);
        }
        Some(self.gen(&mut Rng::new(c.hash_seed ^ 0x51B1_1B15), Tier::Quick, 0))
    }

    fn sim_params(&self, c: &Case) -> SimParams {
        SimParams { faults: c.faults.clone(), chunk_r: c.chunk_r.clone(), chunk_w: Chunk::Whole, hash_seed: c.hash_seed, ..Default::default() }
    }

    fn exec(&self, case: &Case, x: &mut Exec) {
        let r = case.model.render(&case.layout, case.corrupt.as_ref());
        // a model without entry lines has no index to corrupt: the file is then well-formed
        let corrupted = case.corrupt.is_some() && !(matches!(case.corrupt, Some(QCorrupt::IndexZero(_))) && r.corrupt_line.is_none());
        let mut bytes = r.text.clone().into_bytes();
        let full_len = bytes.len();
        if let Some(k) = case.truncate {
            bytes.truncate(k as usize);
        }
        x.nontrivial = true;
        if full_len > 8192 {
            x.count("probe.file_larger_than_bufreader");
        }
        let lines_present = bytes.iter().filter(|b| **b == b'\n').count() + (!bytes.is_empty() && *bytes.last().unwrap() != b'\n') as usize;
        let cut_before_last_required = case.truncate.map(|k| (k as usize) < r.last_required_start);
        let cut_inside_or_after = case.truncate.map(|k| (k as usize) >= r.last_required_start && (k as usize) < full_len);

        if case.entry == Entry::Reader {
            // table level: Err or the fault-free tables
            x.begin_op(50);
            let reference = x.sut(|| ommx::qplib::QplibFile::from_reader(&bytes[..]));
            x.begin_op(0);
            let got = x.sut(|| ommx::qplib::QplibFile::from_reader(SimReader::new(bytes.clone(), STREAM)));
            let hard = x.hard_fired(0);
            match (reference, got) {
                (Ok(Ok(a)), Ok(Ok(b))) => {
                    x.api("from_reader", "Ok");
                    if tables_digest(&a) != tables_digest(&b) {
                        x.violate(if hard { "C19:fault-swallowed:tables" } else { "C19:tables-differ-under-transient-faults" }, format!("from_reader under faults returned different tables: {} vs {}", tables_digest(&a), tables_digest(&b)));
                    }
                }
                (Ok(Ok(_)), Ok(Err(e))) => {
                    x.api("from_reader", &format!("Err({e})"));
                    if !hard {
                        x.violate("C19:error-under-transient-faults", format!("from_reader returned Err({e:#}) although only transient faults were injected"));
                    } else {
                        x.count("probe.err_after_hard_fault");
                    }
                }
                (Ok(Err(_)), Ok(Err(_))) => {
                    x.api("from_reader", "Err");
                    x.count("probe.reader_both_err");
                }
                (Ok(Err(e)), Ok(Ok(_))) => {
                    x.api("from_reader", "Ok");
                    x.violate("C19:tables-ok-only-under-faults", format!("from_reader fails fault-free ({e:#}) but succeeds under faults"));
                }
                (Err(_), _) | (_, Err(_)) => {
                    x.api("from_reader", "panic");
                    x.count("probe.reader_panic");
                    // judged on the File route, which sees the same bytes
                }
            }
            return;
        }

        let path = x.path(FILE);
        x.begin_op(99);
        std::fs::write(&path, &bytes).expect("harness: write input file to the sim disk");
        // an earlier call on the same thread (another, cut-short file) must not leak into this one
        if case.hash_seed % 4 == 0 {
            x.begin_op(98);
            let other: &[u8] = b"EARLIER\nQBL\nminimize\n2\n1\n1\n1 1 2.0\n0.0\n";
            let _ = x.quietly(|x| x.sut(|| ommx::qplib::QplibFile::from_reader(other).map(|_| ())));
            x.count("probe.earlier_call_on_the_same_thread");
        }
        x.begin_op(0);
        let res = if case.via_bytes {
            // load_file_bytes is load_file followed by the encoding of the message: decoded again it must be the same
            x.sut(|| ommx::qplib::load_file_bytes(&path).map(|b| <ommx::v1::Instance as prost::Message>::decode(&b[..]).expect("load_file_bytes returned bytes that are not an ommx.v1.Instance")))
        } else {
            x.sut(|| ommx::qplib::load_file(&path))
        };
        let hard = x.hard_fired(0);
        let res = match res {
            Err(p) => {
                x.api("load_file", "panic");
                let class = if corrupted {
                    "C19:malformed-panic"
                } else if cut_before_last_required == Some(true) {
                    "C19:truncation-panic"
                } else if cut_inside_or_after == Some(true) {
                    // cut inside the last required line: the statement's "premature end of file" still applies
                    "C19:truncation-panic"
                } else if hard {
                    "C19:panic-under-fault"
                } else {
                    "C19:panic-on-wellformed"
                };
                x.violate(class, format!("load_file panicked instead of reporting an error: {p}"));
                return;
            }
            Ok(r) => r,
        };
        match res {
            Err(e) => {
                let msg = format!("{e:#}");
                x.api("load_file", &format!("Err({msg})"));
                if let Some(line) = r.corrupt_line {
                    x.count("probe.malformed_rejected");
                    match line_of_error(&msg) {
                        Some(l) if l == line => {}
                        Some(l) if r.corrupt_line_is_lower_bound && l >= line && l <= r.n_lines + 1 => x.count("probe.count_beyond_file_rejected"),
                        other => x.violate("C19:malformed-wrong-line", format!("corrupted token on line {line}; error reports line {:?}: {msg}", other)),
                    }
                } else if case.truncate.is_some() && (case.truncate.unwrap() as usize) < full_len {
                    x.count("probe.truncation_rejected");
                    if !hard {
                        match line_of_error(&msg) {
                            // a cut inside a multi-byte character: the line that cannot be read is the unfinished one
                            Some(l) if std::str::from_utf8(&bytes).is_err() && l != lines_present => x.violate(
                                "C19:truncation-wrong-line",
                                format!("truncated to {} bytes inside a multi-byte character of line {}; the error carries line {l}: {msg}", bytes.len(), lines_present),
                            ),
                            // the reader stood at the end of what is there: the last line present (if it is the one
                            // that cannot be used) or the line after it
                            Some(l) if l + 1 < lines_present.max(1) => x.violate(
                                "C19:truncation-wrong-line",
                                format!("truncated to {} bytes ({} lines present); the error carries line {l}, which is not where the input ends: {msg}", bytes.len(), lines_present),
                            ),
                            Some(l) if l <= lines_present + 1 => {}
                            other => x.violate("C19:truncation-error-without-line", format!("truncated to {} bytes ({} lines present); error carries line {:?}: {msg}", bytes.len(), lines_present, other)),
                        }
                    }
                } else if hard {
                    x.count("probe.err_after_hard_fault");
                } else {
                    let t = x.transient_fired(0);
                    x.violate(if t { "C19:error-under-transient-faults" } else { "C19:error-on-wellformed" }, format!("load_file returned Err({msg}) for a well-formed file (transient faults fired: {t})"));
                }
            }
            Ok(inst) => {
                x.api("load_file", "Ok");
                if corrupted {
                    x.violate("C19:malformed-accepted", format!("load_file returned Ok for a file with the corruption {:?}", case.corrupt));
                    return;
                }
                if cut_before_last_required == Some(true) {
                    x.violate("C19:truncation-accepted", format!("file cut to {} of {} bytes, before its last required line (which starts at byte {}), yet load_file returned Ok", bytes.len(), full_len, r.last_required_start));
                    return;
                }
                if cut_inside_or_after == Some(true) && (case.truncate.unwrap() as usize) < full_len {
                    // inside the last required line (a shorter token can still parse) or inside trailing text: either
                    // outcome is legal, the content cannot be judged against the model
                    let in_trailing = bytes.len() >= r.text.len() - trailing_len(&r.text, r.last_required_start);
                    x.count(if in_trailing { "probe.cut_in_trailing_text_ok" } else { "probe.cut_in_last_line_ok" });
                    if !in_trailing {
                        return;
                    }
                }
                if hard {
                    x.count("probe.ok_despite_hard_fault");
                }
                match compare(&case.model, &inst) {
                    Err(e) => panic!("reference model: {e}"),
                    Ok(d) => {
                        let prefix = if hard { "C19:fault-swallowed" } else { "C19:wrong-problem" };
                        for (class, detail) in d {
                            x.violate(&format!("{prefix}:{class}"), format!("load_file returned Ok; {detail}"));
                        }
                    }
                }
            }
        }
    }

    fn shrink(&self, c: &Case) -> Vec<Case> {
        let mut out = vec![];
        for f in remove_each(&c.faults) {
            out.push(Case { faults: f, ..c.clone() });
        }
        if !c.chunk_r.is_whole() {
            out.push(Case { chunk_r: Chunk::Whole, ..c.clone() });
        }
        let plain = QpLayout { seed: c.layout.seed, ..QpLayout::plain() };
        if serde_json::to_string(&plain).ok() != serde_json::to_string(&c.layout).ok() && c.truncate.is_none() {
            out.push(Case { layout: plain, ..c.clone() });
        }
        if c.truncate.is_none() {
            macro_rules! drop_each {
                ($field:ident) => {
                    for i in 0..c.model.$field.len() {
                        let mut n = c.clone();
                        n.model.$field.remove(i);
                        out.push(n);
                    }
                };
            }
            drop_each!(q0);
            drop_each!(b0);
            drop_each!(qs);
            drop_each!(bs);
            drop_each!(cl);
            drop_each!(cu);
            drop_each!(l);
            drop_each!(u);
            drop_each!(types);
            drop_each!(x0);
            drop_each!(y0);
            drop_each!(z0);
            drop_each!(var_names);
            drop_each!(con_names);
            if c.model.ncons > 0 {
                let m = c.model.ncons - 1;
                let mut n = c.clone();
                n.model.ncons = m;
                n.model.qs.retain(|e| e.0 < m);
                n.model.bs.retain(|e| e.0 < m);
                n.model.cl.retain(|e| e.0 < m);
                n.model.cu.retain(|e| e.0 < m);
                n.model.y0.retain(|e| e.0 < m);
                n.model.con_names.retain(|e| e.0 < m);
                out.push(n);
            }
            if c.model.nvars > 1 {
                let m = c.model.nvars - 1;
                let mut n = c.clone();
                n.model.nvars = m;
                n.model.q0.retain(|e| e.0 < m && e.1 < m);
                n.model.b0.retain(|e| e.0 < m);
                n.model.qs.retain(|e| e.1 < m && e.2 < m);
                n.model.bs.retain(|e| e.1 < m);
                n.model.l.retain(|e| e.0 < m);
                n.model.u.retain(|e| e.0 < m);
                n.model.types.retain(|e| e.0 < m);
                n.model.x0.retain(|e| e.0 < m);
                n.model.z0.retain(|e| e.0 < m);
                n.model.var_names.retain(|e| e.0 < m);
                out.push(n);
            }
        }
        out
    }

    fn rule(&self) -> String {
        "one run = (abstract QP with <=5 variables and <=4 constraints for a random type code from {L,D,C,Q}x{C,B,M,I,G}x{N,B,L,D,C,Q}: lower-triangle entries incl. diagonal, default and non-default b0, constant, infinity value with bounds at/above/below it, two-sided/one-sided sides, names, starting points; layout: trailing text, comment and blank lines, a line ending exactly at an 8/16/32/64 KiB boundary or a text of exactly that length, tab/blank separators, number styles, CRLF, trailing lines, word case; entry: qplib::load_file / load_file_bytes (+ decode) on the simulated disk or QplibFile::from_reader on a simulated stream; schedule: chunking; faults: EINTR, short reads, EIO at byte k / call j, open failure; truncation at byte k; one-token corruption of a type-code letter, a count or a number; an entry count replaced by one far beyond the file: 10^9, 10^12, 2^62, 2^64-1; a 1-based index replaced by 0). Enumerated part: truncation at every byte of N files; every one-token corruption (each type-code letter, count, number; each entry count replaced by each of four counts beyond the file; each 1-based index replaced by 0) of M files. distinct = distinct event-log hash; every run is non-trivial (>=1 variable)".into()
    }
    fn assumptions(&self) -> Vec<String> {
        vec![
            "tokens are separated by single blanks or tabs and entry lines do not start with a blank (the loader splits on each blank; whether runs of blanks are well-formed QPLIB is not settled by the statement)".into(),
            "constraints are compared as a multiset of '<= 0' polynomials (the statement fixes neither their IDs nor their names); variables by index".into(),
            "an index token beyond the declared count is not among the statement's malformed inputs and is not generated (index 0 is: a 1-based index cannot be 0)".into(),
            "coefficients are dyadic so that 1/2 x'Qx is exact".into(),
        ]
    }
    fn real_components(&self) -> Vec<&'static str> {
        vec!["ommx::qplib::load_file", "ommx::qplib::QplibFile::from_reader", "qplib parser and convert", "std BufReader/File", "tmpfs files"]
    }
    fn stub_components(&self) -> Vec<&'static str> {
        vec!["libc read/open and the SimReader stream (fault plan applied, then the real call)", "the producer of the file (independent renderer)"]
    }
    fn required_probes(&self, _t: Tier) -> Vec<&'static str> {
        vec!["fault.eio_read", "fault.eintr_read", "fault.short_read", "fault.open_fail", "probe.malformed_rejected", "probe.count_beyond_file_rejected", "probe.truncation_rejected", "probe.err_after_hard_fault", "probe.file_larger_than_bufreader", "sys.read"]
    }
}

fn trailing_len(text: &str, last_required_start: usize) -> usize {
    // bytes after the end of the last required line
    let rest = &text[last_required_start..];
    match rest.find('\n') {
        Some(i) => rest.len() - (i + 1),
        None => 0,
    }
}
