//! C20 — artifacts return what was stored in them: histories of add operations on the simulated disk
//! (ENOSPC / EIO / short writes / EINTR while building, read faults while reading, clock jumps between
//! operations), read back through `Artifact::from_oci_archive`, and through an OCI directory and a re-saved archive.

use crate::model::gen_msg;
use crate::rng::Rng;
use crate::runner::{remove_each, Exec, Prop, SimParams, Tier};
use crate::simos::{self, Act, At, Chunk, Dir, Fault};
use chrono::{DateTime, Local, TimeZone};
use ommx::artifact::{media_types, Artifact, Builder, Config, InstanceAnnotations, ParametricInstanceAnnotations, SampleSetAnnotations, SolutionAnnotations};
use ommx::ocipkg::{
    image::{Image, ImageBuilder, OciArchiveBuilder, OciArtifactBuilder, OciDirBuilder},
    oci_spec::image::{ImageManifestBuilder, MediaType},
    Digest, ImageName,
};
use ommx::v1;
use serde::{Deserialize, Serialize};
use std::collections::HashMap;
use std::ops::DerefMut;

#[derive(Clone, Copy, Debug, Serialize, Deserialize, PartialEq, Eq)]
pub enum Kind {
    Instance,
    Parametric,
    Solution,
    SampleSet,
}
const KINDS: [Kind; 4] = [Kind::Instance, Kind::Parametric, Kind::Solution, Kind::SampleSet];
impl Kind {
    fn media_type(self) -> MediaType {
        match self {
            Kind::Instance => media_types::v1_instance(),
            Kind::Parametric => media_types::v1_parametric_instance(),
            Kind::Solution => media_types::v1_solution(),
            Kind::SampleSet => media_types::v1_sample_set(),
        }
    }
}

#[derive(Clone, Copy, Debug, Serialize, Deserialize, PartialEq, Eq)]
pub struct Instant {
    pub secs: i64,
    pub nanos: u32,
}
/// `secs >= YEAR_END` stands for "that many seconds before the last second of year 9999 *in the writer's time
/// zone*" (west of Greenwich that instant lies in year 10000 of UTC; east of it year 10000 has no RFC 3339 form)
pub const YEAR_END: i64 = 1 << 60;
static WRITER_YEAR_END: std::sync::OnceLock<i64> = std::sync::OnceLock::new();
/// Resolved once per process, under the time zone the process was started with (the read-back zone is switched
/// only inside a run and put back afterwards).
fn writer_year_end() -> i64 {
    *WRITER_YEAR_END.get_or_init(|| {
        let naive = chrono::NaiveDate::from_ymd_opt(9999, 12, 31).unwrap().and_hms_opt(23, 59, 59).unwrap();
        Local.from_local_datetime(&naive).single().expect("last second of year 9999").timestamp()
    })
}
impl Instant {
    fn local(self) -> DateTime<Local> {
        let secs = if self.secs >= YEAR_END { writer_year_end() - (self.secs - YEAR_END) } else { self.secs };
        Local.timestamp_opt(secs, self.nanos).single().expect("instant")
    }
}
#[derive(Clone, Copy, Debug, Serialize, Deserialize, PartialEq, Eq)]
pub enum Created {
    At(Instant),
    Now,
}
#[derive(Clone, Debug, Serialize, Deserialize, Default)]
pub struct Ann {
    // instance / parametric-instance annotations
    pub title: Option<String>,
    pub authors: Option<Vec<String>>,
    pub created: Option<Created>,
    pub license: Option<String>,
    pub dataset: Option<String>,
    pub variables: Option<usize>,
    pub constraints: Option<usize>,
    // solution / sample-set annotations
    pub start: Option<Instant>,
    pub end: Option<Instant>,
    pub instance: Option<String>,
    pub solver: Option<String>,
    pub parameters: Option<serde_json::Value>,
    pub other: Vec<(String, String)>,
}
#[derive(Clone, Debug, Serialize, Deserialize)]
pub struct Layer {
    pub kind: Kind,
    /// the message is a pure function of this seed (model::gen_msg)
    pub msg_seed: u64,
    pub ann: Ann,
}
#[derive(Clone, Debug, Serialize, Deserialize)]
pub struct Case {
    pub name: Option<String>,
    pub layers: Vec<Layer>,
    pub config: bool,
    /// also copy the archive into an OCI directory, read it there, save it as a second archive and read that
    pub via_dir: bool,
    /// instead of an OMMX artifact: 1 = artifact of another type, 2 = image without artifact type
    pub foreign: u8,
    pub faults: Vec<Fault>,
    pub chunk_r: Chunk,
    pub chunk_w: Chunk,
    /// simulated wall-clock jump (seconds, may be negative) before operation i
    pub clock_jumps: Vec<i64>,
    pub hash_seed: u64,
    /// the archive is read back under another time zone than it was written in (index into READ_ZONES; 0 = same):
    /// what was stored is an instant, whatever the reader's local offset
    #[serde(default)]
    pub read_tz: u8,
}

/// time zones for the read-back: far east and far west of the writer's, UTC, and one with a half-hour offset
pub const READ_ZONES: [&str; 6] = ["", "UTC", "Asia/Tokyo", "Pacific/Kiritimati", "Etc/GMT+12", "Asia/Kolkata"];

/// puts the process's TZ back when the run ends (also by a panic of the harness)
struct TzGuard(Option<std::ffi::OsString>);
impl TzGuard {
    fn new() -> Self {
        TzGuard(std::env::var_os("TZ"))
    }
}
impl Drop for TzGuard {
    fn drop(&mut self) {
        match &self.0 {
            Some(v) => std::env::set_var("TZ", v),
            None => std::env::remove_var("TZ"),
        }
    }
}

pub const ARCHIVE: &str = "a.ommx";

#[derive(Clone, PartialEq, Debug)]
enum Msg {
    Instance(v1::Instance),
    Parametric(v1::ParametricInstance),
    Solution(v1::State),
    SampleSet(v1::SampleSet),
}
struct ModelLayer {
    kind: Kind,
    msg: Msg,
    ann: HashMap<String, String>,
    spec: Ann,
    /// simulated clock window of set_created_now
    now_window: Option<(i128, i128)>,
}

fn gen_msg_for(kind: Kind, seed: u64) -> Msg {
    let mut r = Rng::new(seed);
    match kind {
        // now and then a layer of ~100 KB (many tar blocks, several writes when the transfer is chunked)
        Kind::Instance if seed % 61 == 0 => {
            let mut inst = gen_msg::gen_instance(&mut r);
            let terms: Vec<(Vec<u64>, f64)> = (0..6000u64).map(|i| (vec![i % 50, (i / 50) % 50, i % 7], (1 + r.below(100_000)) as f64 / 7.0)).collect();
            inst.objective = Some(crate::model::msg::f_poly(crate::model::msg::polynomial(&terms)));
            Msg::Instance(inst)
        }
        // now and then a layer whose encoding is an exact multiple of the tar block size (512 bytes), or one byte
        // more or less: the padding arithmetic of the archive takes its other branch
        Kind::Instance if seed % 13 == 5 => {
            use prost::Message;
            let mut inst = gen_msg::gen_instance(&mut r);
            let want = match seed % 3 {
                0 => 0,
                1 => 1,
                _ => 511,
            };
            let mut d = inst.description.clone().unwrap_or_default();
            for k in 0..2000 {
                d.description = Some("p".repeat(k));
                inst.description = Some(d.clone());
                if inst.encoded_len() % 512 == want {
                    break;
                }
            }
            Msg::Instance(inst)
        }
        Kind::Instance => Msg::Instance(gen_msg::gen_instance(&mut r)),
        Kind::Parametric => Msg::Parametric(gen_msg::gen_parametric(&mut r)),
        Kind::Solution => Msg::Solution(gen_msg::gen_state(&mut r)),
        Kind::SampleSet => Msg::SampleSet(gen_msg::gen_sample_set(&mut r)),
    }
}

fn gen_instant(rng: &mut Rng) -> Instant {
    let secs = match rng.below(7) {
        // beyond the range of a nanosecond counter in an i64 (2262-04-11), year 3000, the last days of year 9999
        6 => {
            if rng.chance(1, 3) {
                YEAR_END + rng.range(0, 20_000)
            } else {
                *rng.pick(&[9_223_372_037i64, 32_503_680_000, 253_402_000_000]) + rng.range(0, 100_000)
            }
        }
        // before 1970, but not before 1940: the three supported zones then use offsets that are whole minutes
        // (RFC 3339 cannot express the seconds of e.g. -03:30:52, Newfoundland local mean time until 1935)
        0 => -rng.range(1, 900_000_000),
        1 => 0,
        2 => 1_710_000_000 + rng.range(0, 40_000_000), // DST changes inside
        3 => 4_102_444_800 + rng.range(0, 1000),       // 2100
        _ => rng.range(0, 2_000_000_000),
    };
    let nanos = match rng.below(4) {
        0 => 0,
        1 => 500_000_000,
        2 => 123_000,
        _ => rng.below(1_000_000_000) as u32,
    };
    Instant { secs, nanos }
}
fn gen_text(rng: &mut Rng) -> String {
    (*rng.pick(&["random_lp", "", "title with spaces", "日本語のタイトル", "MIT OR Apache-2.0", "miplib2017", "a=b;c", "x\"y", " lead", "trail \t", "a,b, c", "two\nlines\r\n", "\u{1F600}\u{3000}", "{\"json\": [1, 2]}", "null", "0"])).to_string()
}
fn gen_digest(rng: &mut Rng) -> String {
    format!("sha256:{:064x}", rng.next() as u128 * 0x1_0000_0001u128)
}
fn gen_ann(rng: &mut Rng, kind: Kind) -> Ann {
    let mut a = Ann::default();
    if rng.chance(1, 6) {
        return a;
    }
    for _ in 0..rng.below(3) {
        a.other.push(((*rng.pick(&["org.example.note", "com.github.user", "k", "org.ommx.user.tag"])).to_string(), gen_text(rng)));
    }
    a.other.sort();
    a.other.dedup_by(|x, y| x.0 == y.0);
    match kind {
        Kind::Instance | Kind::Parametric => {
            if rng.chance(2, 3) {
                a.title = Some(gen_text(rng));
            }
            if rng.chance(1, 2) {
                a.authors = Some((0..rng.below(4)).map(|_| (*rng.pick(&["Alice", "Bob B.", "山田 太郎", "c@example.org", "D", " lead", "trail ", "\tTab", "\u{3000}全角\u{3000}", "a  b", "O'Brien \"Q\"", "\u{1F600}", "two\nlines", "x;y"])).to_string()).collect());
            }
            if rng.chance(2, 3) {
                a.created = Some(if rng.chance(1, 3) { Created::Now } else { Created::At(gen_instant(rng)) });
            }
            if rng.chance(1, 2) {
                a.license = Some(gen_text(rng));
            }
            if rng.chance(1, 2) {
                a.dataset = Some(gen_text(rng));
            }
            if rng.chance(1, 2) {
                a.variables = Some(*rng.pick(&[0usize, 1, 42, 1 << 40, (1 << 53) + 1, u32::MAX as usize + 1]));
            }
            if rng.chance(1, 2) {
                a.constraints = Some(*rng.pick(&[0usize, 7, usize::MAX, usize::MAX - 1, i64::MAX as usize + 2]));
            }
        }
        _ => {
            if rng.chance(1, 2) {
                a.start = Some(gen_instant(rng));
            }
            if rng.chance(1, 2) {
                a.end = Some(gen_instant(rng));
            }
            if rng.chance(1, 2) {
                a.instance = Some(gen_digest(rng));
            }
            if rng.chance(1, 2) {
                a.solver = Some(gen_digest(rng));
            }
            if rng.chance(1, 2) {
                a.parameters = Some(match rng.below(4) {
                    0 => serde_json::json!({}),
                    1 => serde_json::json!({"time_limit": 1.5, "threads": 8, "name": "x,y"}),
                    2 => serde_json::json!([1, 2.25, null, "s", {"nested": [true, false]}]),
                    _ => serde_json::json!("just a string"),
                });
            }
        }
    }
    a
}

macro_rules! instance_like_ann {
    ($ty:ty, $spec:expr, $win:expr) => {{
        let mut a = <$ty>::default();
        let s: &Ann = $spec;
        if let Some(t) = &s.title {
            a.set_title(t.clone());
        }
        if let Some(t) = &s.authors {
            a.set_authors(t.clone());
        }
        match s.created {
            Some(Created::At(i)) => a.set_created(i.local()),
            Some(Created::Now) => {
                let before = simos::with_ctx(|c| c.clock_ns).unwrap();
                a.set_created_now();
                let after = simos::with_ctx(|c| c.clock_ns).unwrap();
                *$win = Some((before, after));
            }
            None => {}
        }
        if let Some(t) = &s.license {
            a.set_license(t.clone());
        }
        if let Some(t) = &s.dataset {
            a.set_dataset(t.clone());
        }
        if let Some(t) = s.variables {
            a.set_variables(t);
        }
        if let Some(t) = s.constraints {
            a.set_constraints(t);
        }
        for (k, v) in &s.other {
            a.set_other(k.clone(), v.clone());
        }
        a
    }};
}
macro_rules! solution_like_ann {
    ($ty:ty, $spec:expr) => {{
        let mut a = <$ty>::default();
        let s: &Ann = $spec;
        if let Some(t) = s.start {
            a.set_start(t.local());
        }
        if let Some(t) = s.end {
            a.set_end(t.local());
        }
        if let Some(t) = &s.instance {
            a.set_instance(Digest::new(t).unwrap());
        }
        if let Some(t) = &s.solver {
            a.set_solver(Digest::new(t).unwrap());
        }
        if let Some(t) = &s.parameters {
            a.set_parameters(t.clone()).unwrap();
        }
        for (k, v) in &s.other {
            a.set_other(k.clone(), v.clone());
        }
        a
    }};
}
macro_rules! check_instance_like {
    ($ann:expr, $ml:expr, $out:expr, $what:expr) => {{
        let a = $ann;
        let s = &$ml.spec;
        let mut bad = |field: &str, detail: String| $out.push((format!("accessor-{}", field), format!("{}: {}", $what, detail)));
        match (&s.title, a.title()) {
            (Some(t), Ok(g)) if g == t => {}
            (None, Err(_)) => {}
            (e, g) => bad("title", format!("set {:?} got {:?}", e, g.ok())),
        }
        match (&s.license, a.license()) {
            (Some(t), Ok(g)) if g == t => {}
            (None, Err(_)) => {}
            (e, g) => bad("license", format!("set {:?} got {:?}", e, g.ok())),
        }
        match (&s.dataset, a.dataset()) {
            (Some(t), Ok(g)) if g == t => {}
            (None, Err(_)) => {}
            (e, g) => bad("dataset", format!("set {:?} got {:?}", e, g.ok())),
        }
        match (s.variables, a.variables()) {
            (Some(t), Ok(g)) if g == t => {}
            (None, Err(_)) => {}
            (e, g) => bad("variables", format!("set {:?} got {:?}", e, g.ok())),
        }
        match (s.constraints, a.constraints()) {
            (Some(t), Ok(g)) if g == t => {}
            (None, Err(_)) => {}
            (e, g) => bad("constraints", format!("set {:?} got {:?}", e, g.ok())),
        }
        match (&s.authors, a.authors().map(|i| i.map(|s| s.to_string()).collect::<Vec<_>>())) {
            (Some(t), Ok(g)) if &g == t => {}
            (None, Err(_)) => {}
            (e, g) => bad("authors", format!("set {:?} got {:?}", e, g.ok())),
        }
        match (s.created, a.created()) {
            (Some(Created::At(i)), Ok(g)) if g == i.local() => {}
            (Some(Created::Now), Ok(g)) => {
                let (lo, hi) = $ml.now_window.unwrap();
                let t = g.timestamp() as i128 * 1_000_000_000 + g.timestamp_subsec_nanos() as i128;
                if t < lo || t > hi {
                    bad("created-now", format!("set_created_now recorded {} ns, simulated clock was in [{}, {}]", t, lo, hi));
                }
            }
            (None, Err(_)) => {}
            (e, g) => bad("created", format!("set {:?} got {:?}", e, g.ok())),
        }
        for (k, v) in &s.other {
            if a.get(k) != Some(v) {
                bad("other", format!("key {:?}: set {:?} got {:?}", k, v, a.get(k)));
            }
        }
    }};
}
macro_rules! check_solution_like {
    ($ann:expr, $ml:expr, $out:expr, $what:expr) => {{
        let a = $ann;
        let s = &$ml.spec;
        let mut bad = |field: &str, detail: String| $out.push((format!("accessor-{}", field), format!("{}: {}", $what, detail)));
        match (s.start, a.start()) {
            (Some(t), Ok(g)) if g == t.local() => {}
            (None, Err(_)) => {}
            (e, g) => bad("start", format!("set {:?} got {:?}", e, g.ok())),
        }
        match (s.end, a.end()) {
            (Some(t), Ok(g)) if g == t.local() => {}
            (None, Err(_)) => {}
            (e, g) => bad("end", format!("set {:?} got {:?}", e, g.ok())),
        }
        match (&s.instance, a.instance()) {
            (Some(t), Ok(g)) if &g.to_string() == t => {}
            (None, Err(_)) => {}
            (e, g) => bad("instance", format!("set {:?} got {:?}", e, g.ok())),
        }
        match (&s.solver, a.solver()) {
            (Some(t), Ok(g)) if &g.to_string() == t => {}
            (None, Err(_)) => {}
            (e, g) => bad("solver", format!("set {:?} got {:?}", e, g.ok())),
        }
        match (&s.parameters, a.parameters::<serde_json::Value>()) {
            (Some(t), Ok(g)) if &g == t => {}
            (None, Err(_)) => {}
            (e, g) => bad("parameters", format!("set {:?} got {:?}", e, g.ok())),
        }
        for (k, v) in &s.other {
            if a.get(k) != Some(v) {
                bad("other", format!("key {:?}: set {:?} got {:?}", k, v, a.get(k)));
            }
        }
    }};
}

/// Outcome of a verification pass
struct Pass {
    diffs: Vec<(String, String)>,
    errors: Vec<String>,
}

/// Check everything the statement promises about a readable artifact against the model. An `Err` from any call
/// is collected in `errors` (the caller decides whether a fault excuses it).
fn verify<B: Image>(art: &mut Artifact<B>, model: &[ModelLayer], name: &Option<String>, full: bool) -> Pass {
    let mut p = Pass { diffs: vec![], errors: vec![] };
    let manifest = match art.get_manifest() {
        Ok(m) => m,
        Err(e) => {
            p.errors.push(format!("get_manifest: {e:#}"));
            return p;
        }
    };
    let layers = manifest.layers().clone();
    if layers.len() != model.len() {
        p.diffs.push(("layer-count".into(), format!("stored {} layers, manifest lists {}", model.len(), layers.len())));
        return p;
    }
    for (i, (d, m)) in layers.iter().zip(model).enumerate() {
        if d.media_type() != &m.kind.media_type() {
            p.diffs.push(("media-type-order".into(), format!("layer {i}: stored as {:?}, manifest says {}", m.kind, d.media_type())));
        }
    }
    if !p.diffs.is_empty() {
        return p;
    }
    let digests: Vec<Digest> = match layers.iter().map(Digest::from_descriptor).collect::<Result<Vec<_>, _>>() {
        Ok(d) => d,
        Err(e) => {
            p.diffs.push(("digest-syntax".into(), format!("{e:#}")));
            return p;
        }
    };
    // candidates for "the layer of kind K with digest D": any stored layer with that kind and digest
    let candidates = |k: Kind, d: &Digest| -> Vec<usize> { (0..model.len()).filter(|j| model[*j].kind == k && &digests[*j] == d).collect() };
    for i in 0..model.len() {
        let d = &digests[i];
        for k in KINDS {
            let cands = candidates(k, d);
            let what = format!("layer {i} ({:?}) requested as {:?} by its digest", model[i].kind, k);
            // get the (message, annotation map) pair through the typed getter
            let got: Result<(Msg, HashMap<String, String>), String> = match k {
                Kind::Instance => art.get_instance(d).map(|(m, a)| (Msg::Instance(m), a.into_inner())).map_err(|e| format!("{e:#}")),
                Kind::Parametric => art.get_parametric_instance(d).map(|(m, a)| (Msg::Parametric(m), a.into_inner())).map_err(|e| format!("{e:#}")),
                Kind::Solution => art.get_solution(d).map(|(m, a)| (Msg::Solution(m), a.into_inner())).map_err(|e| format!("{e:#}")),
                Kind::SampleSet => art.get_sample_set(d).map(|(m, a)| (Msg::SampleSet(m), a.into_inner())).map_err(|e| format!("{e:#}")),
            };
            match (cands.is_empty(), got) {
                (true, Err(_)) => {}
                (true, Ok(_)) => p.diffs.push(("wrong-type-accepted".into(), format!("{what}: returned Ok although no {:?} layer has this digest", k))),
                (false, Err(e)) => {
                    if e.contains("is not an ommx.v1") || e.contains("not found") {
                        p.diffs.push(("layer-not-addressable".into(), format!("{what}: a {:?} layer with this digest was stored, but the getter fails: {e}", k)));
                    } else {
                        p.errors.push(format!("{what}: {e}"));
                    }
                }
                (false, Ok((msg, ann))) => {
                    if !cands.iter().any(|j| model[*j].msg == msg) {
                        p.diffs.push(("message-differs".into(), format!("{what}: the message read back differs from what was stored")));
                    }
                    if !cands.iter().any(|j| model[*j].ann == ann) {
                        p.diffs.push(("annotations-differ".into(), format!("{what}: stored {:?} got {:?}", model[cands[0]].ann, ann)));
                    }
                    // accessors, judged against the candidate whose map was returned
                    if let Some(j) = cands.iter().find(|j| model[**j].ann == ann) {
                        let ml = &model[*j];
                        match k {
                            Kind::Instance => check_instance_like!(InstanceAnnotations::from(ann.clone()), ml, p.diffs, what),
                            Kind::Parametric => check_instance_like!(ParametricInstanceAnnotations::from(ann.clone()), ml, p.diffs, what),
                            Kind::Solution => check_solution_like!(SolutionAnnotations::from(ann.clone()), ml, p.diffs, what),
                            Kind::SampleSet => check_solution_like!(SampleSetAnnotations::from(ann.clone()), ml, p.diffs, what),
                        }
                    }
                }
            }
        }
        if !full && i >= 1 {
            break;
        }
    }
    // the untyped getter: the bytes of a layer with this digest, under the descriptor of a layer with this digest
    for i in 0..model.len() {
        let d = &digests[i];
        match art.get_layer(d) {
            Err(e) => p.errors.push(format!("get_layer of the digest of layer {i}: {e:#}")),
            Ok((desc, blob)) => {
                use prost::Message;
                let same = match &model[i].msg {
                    Msg::Instance(m) => v1::Instance::decode(&blob[..]).ok().as_ref() == Some(m),
                    Msg::Parametric(m) => v1::ParametricInstance::decode(&blob[..]).ok().as_ref() == Some(m),
                    Msg::Solution(m) => v1::State::decode(&blob[..]).ok().as_ref() == Some(m),
                    Msg::SampleSet(m) => v1::SampleSet::decode(&blob[..]).ok().as_ref() == Some(m),
                };
                if !same {
                    p.diffs.push(("untyped-getter".into(), format!("get_layer of the digest of layer {i}: the bytes do not decode to the stored message")));
                }
                let ann = desc.annotations().clone().unwrap_or_default();
                let fits = (0..model.len()).any(|j| &digests[j] == d && desc.media_type() == &model[j].kind.media_type() && ann == model[j].ann);
                if desc.digest() != &d.to_string() || !fits {
                    p.diffs.push(("untyped-getter-descriptor".into(), format!("get_layer of the digest of layer {i}: descriptor ({}, {}) is not that of a stored layer with this digest", desc.media_type(), desc.digest())));
                }
            }
        }
        if !full && i >= 1 {
            break;
        }
    }
    // an unknown digest is an error for every getter
    let unknown = Digest::new("sha256:00000000000000000000000000000000000000000000000000000000deadbeef").unwrap();
    if art.get_instance(&unknown).is_ok() || art.get_solution(&unknown).is_ok() || art.get_sample_set(&unknown).is_ok() || art.get_parametric_instance(&unknown).is_ok() || art.get_layer(&unknown).is_ok() {
        p.diffs.push(("unknown-digest-accepted".into(), "a getter returned Ok for a digest that is in no layer".into()));
    }
    // filtered descriptor lists, in insertion order
    for k in KINDS {
        match art.get_layer_descriptors(&k.media_type()) {
            Err(e) => p.errors.push(format!("get_layer_descriptors: {e:#}")),
            Ok(ds) => {
                let got: Vec<String> = ds.iter().map(|d| d.digest().to_string()).collect();
                let want: Vec<String> = (0..model.len()).filter(|j| model[*j].kind == k).map(|j| digests[j].to_string()).collect();
                if got != want {
                    p.diffs.push(("descriptor-list".into(), format!("get_layer_descriptors({:?}): expected {:?} got {:?}", k, want, got)));
                }
            }
        }
    }
    // list accessors: the j-th entry is the j-th stored layer of that kind - message, and the descriptor it was
    // stored under (media type, digest, annotations)
    macro_rules! check_list {
        ($call:ident, $kind:expr, $wrap:path, $class:expr) => {
            match art.$call() {
                Err(e) => p.errors.push(format!("{}: {e:#}", stringify!($call))),
                Ok(v) => {
                    let want: Vec<usize> = (0..model.len()).filter(|j| model[*j].kind == $kind).collect();
                    if v.len() != want.len() {
                        p.diffs.push(($class.into(), format!("{} returned {} messages, {} were stored", stringify!($call), v.len(), want.len())));
                    } else {
                        for (pos, ((desc, m), j)) in v.into_iter().zip(&want).enumerate() {
                            let ml = &model[*j];
                            if $wrap(m) != ml.msg {
                                p.diffs.push(($class.into(), format!("{} entry {pos}: the message differs from the {pos}-th stored one (order or content)", stringify!($call))));
                            }
                            let ann = desc.annotations().clone().unwrap_or_default();
                            if desc.media_type() != &$kind.media_type() || desc.digest() != &digests[*j].to_string() || ann != ml.ann {
                                p.diffs.push((
                                    format!("{}-descriptor", $class),
                                    format!("{} entry {pos}: descriptor ({}, {}, {:?}) is not the one the layer was stored under ({}, {}, {:?})", stringify!($call), desc.media_type(), desc.digest(), ann, $kind.media_type(), digests[*j], ml.ann),
                                ));
                            }
                        }
                    }
                }
            }
        };
    }
    check_list!(get_instances, Kind::Instance, Msg::Instance, "get-instances");
    check_list!(get_solutions, Kind::Solution, Msg::Solution, "get-solutions");
    match (name, art.get_name()) {
        (Some(n), Ok(g)) => {
            if &g.to_string() != n {
                p.diffs.push(("image-name".into(), format!("named {n}, read back {g}")));
            }
        }
        (Some(_), Err(e)) => p.errors.push(format!("get_name: {e:#}")),
        (None, Ok(g)) => p.diffs.push(("image-name".into(), format!("unnamed archive reports the name {g}"))),
        (None, Err(_)) => {}
    }
    match art.get_config() {
        Ok(c) => {
            if c != (Config {}) {
                p.diffs.push(("config".into(), "config differs".into()));
            }
        }
        Err(e) => p.errors.push(format!("get_config: {e:#}")),
    }
    p
}

#[derive(Clone, Copy)]
pub struct C20;

impl Prop for C20 {
    type Case = Case;
    fn id(&self) -> &'static str {
        "C20"
    }
    fn runs(&self, tier: Tier) -> u64 {
        match tier {
            Tier::Quick => 8_000,
            Tier::Thorough => 400_000,
        }
    }
    fn gen(&self, rng: &mut Rng, _tier: Tier, _idx: u64) -> Case {
        // mostly the statement's 0..6 layers; now and then dozens
        let n = if rng.chance(1, 40) { 7 + rng.usize(18) } else { *rng.pick(&[0usize, 1, 1, 2, 2, 3, 3, 4, 5, 6]) };
        let mut layers: Vec<Layer> = vec![];
        for i in 0..n {
            if i > 0 && rng.chance(1, 5) {
                // the same message again (two layers sharing a digest), possibly with other annotations
                let j = rng.usize(i);
                let mut l = layers[j].clone();
                if rng.chance(1, 2) {
                    l.ann = gen_ann(rng, l.kind);
                }
                layers.push(l);
                continue;
            }
            let kind = *rng.pick(&KINDS);
            layers.push(Layer { kind, msg_seed: rng.next(), ann: gen_ann(rng, kind) });
        }
        let name = if rng.chance(1, 2) { Some((*rng.pick(&["ghcr.io/jij-inc/ommx/sim:tag1", "localhost:5000/test/image:latest", "example.com/a/b/c:v1.0", "ghcr.io/jij-inc/ommx/model:v1.2-RC1_Final", "registry.example.org:8443/x/y.z/w_1:A"])).to_string()) } else { None };
        let n_ops = n as u32 + 3;
        let mode = rng.below(20);
        let mut faults = vec![];
        if (8..13).contains(&mode) || mode >= 18 {
            let op = rng.below(n_ops as u64) as u32;
            let (at, act) = match rng.below(8) {
                0..=3 => (At::Byte(*rng.pick(&[0u64, 1, 100, 511, 512, 513, 700, 1024, 2000])), Act::Enospc),
                4 => (At::Call(rng.below(4)), Act::Eio),
                5 => (At::Call(rng.below(4)), Act::Eintr),
                6 => (At::Call(rng.below(4)), Act::Short(1 + rng.below(600) as u32)),
                _ => (At::Byte(rng.below(3000)), Act::Eio),
            };
            if op == 0 && rng.chance(1, 3) {
                faults.push(Fault { op: 0, role: ARCHIVE.into(), dir: Dir::Open, at: At::Call(0), act: Act::FailOpen(*rng.pick(&[libc::EACCES, libc::ENOSPC])) });
            } else {
                faults.push(Fault { op, role: ARCHIVE.into(), dir: Dir::W, at, act });
            }
        }
        if (13..18).contains(&mode) || mode >= 18 {
            let (at, act) = match rng.below(6) {
                0..=2 => (At::Byte(rng.below(20_000)), Act::Eio),
                3 => (At::Call(rng.below(200)), Act::Eio),
                4 => (At::Call(rng.below(100)), Act::Eintr),
                _ => (At::Call(rng.below(100)), Act::Short(1 + rng.below(300) as u32)),
            };
            faults.push(Fault { op: n_ops + 1, role: ARCHIVE.into(), dir: Dir::R, at, act });
        }
        let chunk = |rng: &mut Rng| match rng.below(6) {
            0..=2 => Chunk::Whole,
            3 => Chunk::Rand { max: 16 + rng.below(64) as u32, seed: rng.next() },
            4 => Chunk::Rand { max: 16 + rng.below(1024) as u32, seed: rng.next() },
            _ => Chunk::Cycle(vec![511, 1, 512, 100, 7]),
        };
        // reading one layer makes the archive code walk the whole tar file: with dozens of layers only whole transfers
        // keep a run within its time budget
        // (the same holds for a layer of ~100 KB read a few bytes at a time over three routes: the step cap of a run would
        // be reached by the workload alone)
        let heavy = layers.len() > 6 || layers.iter().any(|l| l.kind == Kind::Instance && l.msg_seed % 61 == 0);
        let (chunk_r, chunk_w) = if mode < 4 || layers.len() > 6 {
            (Chunk::Whole, Chunk::Whole)
        } else if heavy {
            // still in pieces, but of kilobytes
            (Chunk::Rand { max: 4096 + rng.below(8192) as u32, seed: rng.next() }, Chunk::Rand { max: 4096 + rng.below(8192) as u32, seed: rng.next() })
        } else {
            (chunk(rng), chunk(rng))
        };
        let clock_jumps = (0..n_ops + 2).map(|_| if rng.chance(1, 3) { *rng.pick(&[3600i64, -3600, 86_400 * 365, -86_400 * 400, 1, -1, 13 * 3600 + 1800]) } else { 0 }).collect();
        let foreign = if rng.chance(1, 12) { 1 + rng.below(2) as u8 } else { 0 };
        Case { name, layers, config: rng.chance(1, 3), via_dir: rng.chance(1, 3), foreign, faults, chunk_r, chunk_w, clock_jumps, hash_seed: rng.next(), read_tz: if rng.chance(1, 4) { 1 + rng.below(5) as u8 } else { 0 } }
    }
    fn enum_plan(&self, tier: Tier, seed: u64) -> Vec<(u64, u64)> {
        // (a) the disk fills up after a *total* byte budget, whichever builder call crosses it: a grid of 400
        //     budgets (every 61 bytes up to 18 KB, and the three bytes around each of the first 100 tar block
        //     boundaries) for each of N histories;
        // (b) a hard read error at *every* one of the first 300 read calls made while the finished archive is read
        //     back, for each of M histories. The group seed's lowest bit tells which.
        let (n, m) = match tier {
            Tier::Quick => (5, 3),
            Tier::Thorough => (300, 200),
        };
        let mut plan: Vec<(u64, u64)> = (0..n).map(|i| (400, crate::rng::mix(&[seed, 0xC20, i]) & !1)).collect();
        plan.extend((0..m).map(|i| (300, crate::rng::mix(&[seed, 0xB20, i]) | 1)));
        plan
    }
    fn enum_case(&self, gs: u64, k: u64) -> Case {
        let mut rng = Rng::new(gs);
        let mut c = self.gen(&mut rng, Tier::Quick, 1);
        while c.layers.is_empty() || c.foreign != 0 {
            c = self.gen(&mut rng, Tier::Quick, 1);
        }
        c.via_dir = false;
        if gs & 1 == 1 {
            let n_ops = c.layers.len() as u32 + 3;
            c.faults = vec![Fault { op: n_ops + 1, role: ARCHIVE.into(), dir: Dir::R, at: At::Call(k), act: Act::Eio }];
            c.chunk_r = Chunk::Whole;
            return c;
        }
        let budget = if k < 300 { k * 61 } else { 512 * (k - 299) - 1 + (k % 3) };
        c.faults = vec![Fault { op: simos::ANY_OP, role: ARCHIVE.into(), dir: Dir::W, at: At::Byte(budget), act: Act::Enospc }];
        c
    }
    fn sibling(&self, c: &Case) -> Option<Case> {
        // every sixth case is preceded, in the same run, by another case of the property (generated from its hash seed)
        if c.hash_seed % 6 != 4 {
            return None;
        }
        if c.hash_seed % 12 == 4 {
            // a close relative: the same messages (hence the same digests) at the same path, under other annotations
            let mut s = c.clone();
            let mut r = Rng::new(c.hash_seed ^ 0x51B1_1B15);
            for l in &mut s.layers {
                l.ann = gen_ann(&mut r, l.kind);
            }
            s.foreign = 0;
            return Some(s);
        }
        Some(self.gen(&mut Rng::new(c.hash_seed ^ 0x51B1_1B15), Tier::Quick, 0))
    }

    fn sim_params(&self, c: &Case) -> SimParams {
        SimParams { faults: c.faults.clone(), chunk_r: c.chunk_r.clone(), chunk_w: c.chunk_w.clone(), hash_seed: c.hash_seed, clock_s: 1_750_000_000 }
    }
    fn process_isolated(&self) -> bool {
        // ocipkg parses digests and image names with regexes, whose process-global cache pool creates hash
        // maps under thread contention: runs are executed one at a time in worker processes
        true
    }

    fn prepare(&self) {
        // resolved on the main thread, under the time zone the process was started with
        let _ = writer_year_end();
    }

    fn exec(&self, case: &Case, x: &mut Exec) {
        let path = x.path(ARCHIVE);
        x.nontrivial = case.layers.len() >= 2;
        let jump = |x: &mut Exec, op: usize| {
            if let Some(j) = case.clock_jumps.get(op) {
                if *j != 0 {
                    x.jump_clock(*j);
                }
            }
        };
        if case.foreign != 0 {
            // an image that is not an OMMX artifact, written with plain ocipkg (harness side, no faults)
            x.begin_op(90);
            let built: anyhow::Result<()> = (|| {
                let mut layout = OciArchiveBuilder::new_unnamed(path.clone())?;
                if case.foreign == 1 {
                    let mut b = OciArtifactBuilder::new(layout, MediaType::Other("application/vnd.example.other".into()))?;
                    b.add_layer(media_types::v1_instance(), b"", HashMap::new())?;
                    b.build()?;
                } else {
                    let cfg = layout.add_empty_json()?;
                    let manifest = ImageManifestBuilder::default().schema_version(2u32).config(cfg).layers(vec![]).build()?;
                    layout.build(manifest)?;
                }
                Ok(())
            })();
            built.expect("harness: build the foreign image");
            x.begin_op(0);
            let r = x.sut(|| -> anyhow::Result<(bool, bool)> {
                let mut a = Artifact::from_oci_archive(&path)?;
                Ok((a.get_manifest().is_ok(), a.get_layer_descriptors(&media_types::v1_instance()).is_ok()))
            });
            x.count("probe.foreign_image_case");
            match r {
                Err(p) => x.violate("C20:panic", format!("reading a foreign image panicked: {p}")),
                Ok(Err(_)) => x.api("foreign", "Err(open)"),
                Ok(Ok((m, l))) => {
                    x.api("foreign", &format!("manifest_ok={m} descriptors_ok={l}"));
                    if m || l {
                        x.violate("C20:foreign-image-accepted", format!("get_manifest ok={m} / get_layer_descriptors ok={l} on an image that is not an OMMX artifact (kind {})", case.foreign));
                    }
                }
            }
            return;
        }

        // an earlier artifact built and read on the same thread must not leak into this one (caches keyed too coarsely,
        // state kept between calls)
        if case.hash_seed % 5 == 1 {
            x.begin_op(97);
            let prior = x.path("earlier.ommx");
            let r = x.quietly(|x| x.sut(|| -> anyhow::Result<()> {
                let mut b = Builder::new_archive_unnamed(prior.clone())?;
                let mut inst = v1::Instance::default();
                inst.sense = v1::instance::Sense::Maximize as i32;
                let mut a = InstanceAnnotations::default();
                a.set_title("earlier".to_string());
                b.add_instance(inst, a)?;
                b.build()?;
                let mut art = Artifact::from_oci_archive(&prior)?;
                let _ = art.get_instances()?;
                Ok(())
            }));
            if let Ok(Err(e)) = &r {
                x.violate("C20:builder-error-without-hard-fault", format!("building and reading a one-layer archive without faults fails: {e:#}"));
            }
            x.count("probe.earlier_artifact_on_the_same_thread");
        }

        // ---- build
        let mut model: Vec<ModelLayer> = vec![];
        let mut op = 0u32;
        x.begin_op(op);
        jump(x, 0);
        let name = case.name.clone();
        let b = x.sut(|| match &name {
            Some(n) => Builder::new_archive(path.clone(), ImageName::parse(n).expect("image name")),
            None => Builder::new_archive_unnamed(path.clone()),
        });
        let mut all_ok = true;
        // returns true when the builder call is acknowledged
        let mut judge = |x: &mut Exec, op: u32, what: &str, r: Result<anyhow::Result<()>, String>| -> bool {
            match r {
                Err(p) => {
                    x.api(what, "panic");
                    x.violate("C20:panic", format!("{what} panicked: {p}"));
                    false
                }
                Ok(Ok(())) => {
                    x.api(what, "Ok");
                    true
                }
                Ok(Err(e)) => {
                    x.api(what, &format!("Err({e:#})"));
                    if x.hard_fired(op) {
                        x.count("probe.builder_err_after_hard_fault");
                    } else if x.eintr_fired(op) {
                        // tar/ocipkg do not retry EINTR; an error (never wrong content) is accepted
                        x.count("probe.builder_err_after_eintr");
                    } else {
                        x.violate("C20:builder-error-without-hard-fault", format!("{what} returned Err({e:#}) although no hard fault was injected in this operation"));
                    }
                    false
                }
            }
        };
        let mut builder = match b {
            Err(p) => {
                x.violate("C20:panic", format!("Builder::new_archive panicked: {p}"));
                return;
            }
            Ok(Err(e)) => {
                judge(x, 0, "new_archive", Ok(Err(e)));
                return;
            }
            Ok(Ok(b)) => {
                x.api("new_archive", "Ok");
                b
            }
        };
        for (i, l) in case.layers.iter().enumerate() {
            op += 1;
            x.begin_op(op);
            jump(x, i + 1);
            let msg = gen_msg_for(l.kind, l.msg_seed);
            let mut win = None;
            let (ann_map, r) = match (&msg, l.kind) {
                (Msg::Instance(m), _) => {
                    let a = instance_like_ann!(InstanceAnnotations, &l.ann, &mut win);
                    (a.clone().into_inner(), x.sut(|| builder.add_instance(m.clone(), a)))
                }
                (Msg::Parametric(m), _) => {
                    let a = instance_like_ann!(ParametricInstanceAnnotations, &l.ann, &mut win);
                    (a.clone().into_inner(), x.sut(|| builder.add_parametric_instance(m.clone(), a)))
                }
                (Msg::Solution(m), _) => {
                    let a = solution_like_ann!(SolutionAnnotations, &l.ann);
                    (a.clone().into_inner(), x.sut(|| builder.add_solution(m.clone(), a)))
                }
                (Msg::SampleSet(m), _) => {
                    let a = solution_like_ann!(SampleSetAnnotations, &l.ann);
                    (a.clone().into_inner(), x.sut(|| builder.add_sample_set(m.clone(), a)))
                }
            };
            if l.kind == Kind::Instance && l.msg_seed % 61 == 0 {
                x.count("probe.big_layer");
            }
            model.push(ModelLayer { kind: l.kind, msg, ann: ann_map, spec: l.ann.clone(), now_window: win });
            if !judge(x, op, &format!("add_{:?}", l.kind), r) {
                all_ok = false;
                break;
            }
        }
        if all_ok && case.config {
            op += 1;
            x.begin_op(op);
            let r = x.sut(|| builder.add_config(Config {}));
            all_ok = judge(x, op, "add_config", r);
        }
        let n_ops = case.layers.len() as u32 + 3;
        if !all_ok {
            x.count("probe.build_abandoned");
            return;
        }
        x.begin_op(n_ops - 1);
        jump(x, n_ops as usize - 1);
        let r = x.sut(|| builder.build().map(|_| ()));
        if !judge(x, n_ops - 1, "build", r) {
            x.count("probe.build_abandoned");
            return;
        }
        let write_fault_fired = simos::with_ctx(|c| c.io.any_fired()).unwrap_or(false);

        // ---- every builder call returned Ok: a fault-free read must equal the model
        x.begin_op(n_ops);
        jump(x, n_ops as usize);
        let _tz_guard = TzGuard::new();
        if case.read_tz != 0 {
            // the reader sits in another time zone (chrono looks at TZ again once its cache is a second old)
            std::env::set_var("TZ", READ_ZONES[case.read_tz as usize % READ_ZONES.len()]);
            x.jump_clock(1000);
            x.count("probe.read_in_another_time_zone");
        }
        let name = case.name.clone();
        let pass = x.sut(|| -> anyhow::Result<Pass> {
            let mut a = Artifact::from_oci_archive(&path)?;
            Ok(verify(&mut a, &model, &name, true))
        });
        let prefix = if write_fault_fired { "C20:ack-incomplete" } else { "C20" };
        let clean = match pass {
            Err(p) => {
                x.violate("C20:panic", format!("reading the archive panicked: {p}"));
                false
            }
            Ok(Err(e)) => {
                x.violate(&format!("{prefix}:unreadable"), format!("every builder call returned Ok, yet the archive cannot be opened: {e:#}"));
                false
            }
            Ok(Ok(p)) => {
                x.api("read-back", &format!("diffs={} errors={}", p.diffs.len(), p.errors.len()));
                for (c, d) in &p.diffs {
                    x.violate(&format!("{prefix}:{c}"), d.clone());
                }
                for e in &p.errors {
                    x.violate(&format!("{prefix}:read-error"), format!("fault-free read of an acknowledged archive fails: {e}"));
                }
                p.diffs.is_empty() && p.errors.is_empty()
            }
        };
        if !clean {
            return;
        }
        x.count("probe.archive_verified");

        // ---- a second builder at the same path, if refused without any fault in play, must leave the archive alone
        if case.hash_seed % 3 == 0 {
            x.begin_op(n_ops + 3);
            let r = x.sut(|| Builder::new_archive_unnamed(path.clone()).map(|_| ()));
            match r {
                Err(p) => x.violate("C20:panic", format!("Builder::new_archive_unnamed on an existing path panicked: {p}")),
                // whether a builder may replace an existing file is not settled by the statement: only a *refused*
                // builder must leave the archive as it was
                Ok(Ok(())) => {
                    // the archive now belongs to the second builder: nothing more to say about the first one
                    x.count("probe.second_builder_accepted");
                    return;
                }
                // a builder that replaces existing files and then meets an injected fault has legitimately removed the
                // old archive already: nothing to demand (and nothing more to read)
                Ok(Err(_)) if x.hard_fired(n_ops + 3) || x.transient_fired(n_ops + 3) => {
                    x.count("probe.second_builder_failed_under_fault");
                    return;
                }
                Ok(Err(_)) => {
                    x.count("probe.second_builder_refused");
                    let name = case.name.clone();
                    let pass = x.sut(|| -> anyhow::Result<Pass> {
                        let mut a = Artifact::from_oci_archive(&path)?;
                        Ok(verify(&mut a, &model, &name, false))
                    });
                    match pass {
                        Ok(Ok(p)) if p.diffs.is_empty() && p.errors.is_empty() => {}
                        Ok(Ok(p)) => x.violate("C20:existing-archive-damaged", format!("after a refused second builder the archive reads differently: {:?} {:?}", p.diffs.first(), p.errors.first())),
                        Ok(Err(e)) => x.violate("C20:existing-archive-damaged", format!("after a refused second builder the archive can no longer be opened: {e:#}")),
                        Err(p) => x.violate("C20:panic", p),
                    }
                }
            }
        }

        // ---- read under faults: Err or the model's content
        if case.faults.iter().any(|f| f.op == n_ops + 1) {
            x.begin_op(n_ops + 1);
            let name = case.name.clone();
            let pass = x.sut(|| -> anyhow::Result<Pass> {
                let mut a = Artifact::from_oci_archive(&path)?;
                Ok(verify(&mut a, &model, &name, false))
            });
            // tar/ocipkg do not retry EINTR: after one, an error (never wrong content) is accepted
            let hard = x.hard_fired(n_ops + 1) || x.eintr_fired(n_ops + 1);
            match pass {
                Err(p) => x.violate("C20:panic", format!("reading the archive under faults panicked: {p}")),
                Ok(Err(e)) => {
                    x.api("read-faulty", "Err(open)");
                    if !hard {
                        x.violate("C20:read-error-under-transient-faults", format!("{e:#}"));
                    }
                }
                Ok(Ok(p)) => {
                    x.api("read-faulty", &format!("diffs={} errors={}", p.diffs.len(), p.errors.len()));
                    for (c, d) in &p.diffs {
                        x.violate(&format!("C20:read-fault-wrong-content:{c}"), format!("hard fault fired={hard}: {d}"));
                    }
                    if !p.errors.is_empty() {
                        if hard {
                            x.count("probe.read_err_after_hard_fault");
                        } else {
                            x.violate("C20:read-error-under-transient-faults", p.errors[0].clone());
                        }
                    }
                }
            }
        }

        // ---- archive -> OCI directory -> second archive
        if case.via_dir && case.name.is_some() {
            x.begin_op(n_ops + 2);
            let dir = x.path("dir");
            let second = x.path("b.ommx");
            let name = case.name.clone();
            let pass = x.sut(|| -> anyhow::Result<(Pass, Pass)> {
                let mut a = Artifact::from_oci_archive(&path)?;
                let image_name = a.get_name()?;
                ommx::ocipkg::image::copy(a.deref_mut().deref_mut(), OciDirBuilder::new(dir.clone(), image_name)?)?;
                let mut d = Artifact::from_oci_dir(&dir)?;
                let p1 = verify(&mut d, &model, &name, true);
                d.save(&second)?;
                let mut b = Artifact::from_oci_archive(&second)?;
                let p2 = verify(&mut b, &model, &name, true);
                Ok((p1, p2))
            });
            match pass {
                Err(p) => x.violate("C20:panic", format!("the directory route panicked: {p}")),
                Ok(Err(e)) => x.violate("C20:dir-route:error", format!("copy to an OCI directory / save failed without any fault: {e:#}")),
                Ok(Ok((p1, p2))) => {
                    x.count("probe.dir_route_verified");
                    for (tag, p) in [("oci-dir", p1), ("resaved", p2)] {
                        for (c, d) in &p.diffs {
                            x.violate(&format!("C20:dir-route:{c}"), format!("{tag}: {d}"));
                        }
                        for e in &p.errors {
                            x.violate("C20:dir-route:read-error", format!("{tag}: {e}"));
                        }
                    }
                }
            }
        }
    }

    fn shrink(&self, c: &Case) -> Vec<Case> {
        let mut out = vec![];
        for f in remove_each(&c.faults) {
            out.push(Case { faults: f, ..c.clone() });
        }
        for (i, l) in remove_each(&c.layers).into_iter().enumerate() {
            let mut n = Case { layers: l, ..c.clone() };
            // keep fault operation numbers aligned with the operations they were aimed at
            for f in &mut n.faults {
                if f.op as usize > i + 1 {
                    f.op -= 1;
                }
            }
            out.push(n);
        }
        if !c.chunk_r.is_whole() {
            out.push(Case { chunk_r: Chunk::Whole, ..c.clone() });
        }
        if !c.chunk_w.is_whole() {
            out.push(Case { chunk_w: Chunk::Whole, ..c.clone() });
        }
        if c.read_tz != 0 {
            out.push(Case { read_tz: 0, ..c.clone() });
        }
        if c.clock_jumps.iter().any(|j| *j != 0) {
            out.push(Case { clock_jumps: vec![], ..c.clone() });
        }
        if c.via_dir {
            out.push(Case { via_dir: false, ..c.clone() });
        }
        if c.config {
            out.push(Case { config: false, ..c.clone() });
        }
        if c.name.is_some() && !c.via_dir {
            out.push(Case { name: None, ..c.clone() });
        }
        for i in 0..c.layers.len() {
            let a = &c.layers[i].ann;
            macro_rules! unset {
                ($f:ident) => {
                    if a.$f.is_some() {
                        let mut n = c.clone();
                        n.layers[i].ann.$f = None;
                        out.push(n);
                    }
                };
            }
            unset!(title);
            unset!(authors);
            unset!(created);
            unset!(license);
            unset!(dataset);
            unset!(variables);
            unset!(constraints);
            unset!(start);
            unset!(end);
            unset!(instance);
            unset!(solver);
            unset!(parameters);
            if !a.other.is_empty() {
                let mut n = c.clone();
                n.layers[i].ann.other.clear();
                out.push(n);
            }
        }
        out
    }

    fn rule(&self) -> String {
        "one run = (history of 0-6 add operations over the four layer kinds with seeded messages (maps, nested functions, removed constraints, dependencies, empty messages) and annotation specs (title, authors, created explicit/now, licence, dataset, counts, start/end, digests, JSON parameters, user keys), some messages repeated so that layers share a digest; named or unnamed archive; optional config; optional route archive -> OCI directory -> re-saved archive; or a non-OMMX image; write-side fault in one operation: ENOSPC at a byte budget, EIO, EINTR, short writes, open failure; read-side faults; chunking; simulated-clock jumps between operations; read-back under another time zone than the writer's; hash seed). Enumerated part: for each of N histories the disk fills up after a total byte budget on a grid of 400 budgets (every 61 bytes, and around every tar block boundary); for each of M histories a hard read error at every one of the first 300 read calls of the read-back. distinct = distinct event-log hash; non-trivial = >=2 layers or a fault fired".into()
    }
    fn assumptions(&self) -> Vec<String> {
        vec![
            format!("process time zone TZ={} (configuration; instants compare as instants)", std::env::var("TZ").unwrap_or_default()),
            "reading a torn archive (a builder call returned Err) is outside the statement and is not judged".into(),
            "the local registry (Artifact::load, data_dir) and remote push/pull are not exercised; the OCI-directory route uses ocipkg::image::copy into the simulated disk exactly as load() does".into(),
            "get_X(digest) may return any stored layer of kind X with that digest".into(),
            "after an injected EINTR an Err is accepted (tar and ocipkg do not retry it); short transfers must succeed".into(),
            "instants are drawn from 1941..2100: the UTC offset of the process time zone is then a whole number of minutes, which RFC 3339 (the storage format) requires".into(),
        ]
    }
    fn real_components(&self) -> Vec<&'static str> {
        vec!["ommx::artifact::{Builder, Artifact, *Annotations}", "ocipkg OciArchiveBuilder/OciArchive/OciDirBuilder/OciDir/copy", "tar, sha2, serde_json, chrono (Local, rfc3339)", "prost encode/decode", "tmpfs files"]
    }
    fn stub_components(&self) -> Vec<&'static str> {
        vec!["libc read/write/open/close (fault plan applied, then the real call)", "wall clock (simulated, jumped by the schedule)", "OS randomness (seeded)"]
    }
    fn required_probes(&self, _t: Tier) -> Vec<&'static str> {
        vec!["fault.enospc", "fault.eio_read", "fault.short_write", "fault.eintr_write", "probe.foreign_image_case", "probe.archive_verified", "probe.dir_route_verified", "probe.big_layer", "probe.builder_err_after_hard_fault", "probe.read_err_after_hard_fault", "sys.clock_gettime", "sys.write", "sys.read"]
    }
}
