//! C08 — validation accepts exactly the well-formed instances; the typed view keeps the content.
//! Faulty-producer simulation: a valid message, every single-fault mutation of it at every position (and pairs),
//! delivered over the wire (encode -> decode) to validate() / try_from(); reference well-formedness model.

use crate::model::exact::{gen_instance, FuncSpec, GenOpts, InstSpec, RemovedSpec};
use crate::model::lp::F;
use crate::rng::{mix, Rng};
use crate::runner::{Exec, Prop, SimParams, Tier};
use ommx::parse::Parse;
use ommx::v1;
use prost::Message;
use serde::{Deserialize, Serialize};
use std::collections::BTreeSet;

pub const UNDEFINED_ID: u64 = 999_983;

#[derive(Clone, Copy, Debug, Serialize, Deserialize, PartialEq, Eq)]
pub enum Place {
    Objective,
    Constraint(usize),
    Removed(usize),
}
#[derive(Clone, Copy, Debug, Serialize, Deserialize, PartialEq, Eq)]
pub enum BoundShape {
    NanLower,
    NanUpper,
    PlusInfLower,
    MinusInfUpper,
    LowerAboveUpper,
}
#[derive(Clone, Debug, Serialize, Deserialize, PartialEq, Eq)]
pub enum Mutation {
    DupVar(usize),
    /// constraint at `b` gets the id of the constraint at `a`; places are Constraint(i) / Removed(i)
    DupConstraint(Place, Place),
    UndefinedVar(Place, usize),
    UnsetSense,
    UnsetObjective,
    UnsetOneof(Place),
    UnsetFunction(Place),
    UnsetKind(usize),
    UnsetEquality(Place),
    RemovedWithoutConstraint(usize),
    Bound(usize, BoundShape),
    HintOneHotUndefinedConstraint(usize),
    HintOneHotUndefinedVar(usize, usize),
    HintOneHotRepeatedVar(usize),
    HintSos1UndefinedBinaryConstraint(usize),
    HintSos1UndefinedBigM(usize),
    HintSos1RepeatedBigM(usize),
    HintSos1UndefinedVar(usize),
    HintSos1RepeatedVar(usize),
    DepUndefinedKey(usize),
    // parametric instances
    ParamCollidesWithVar(usize),
    ParamDuplicated(usize),
}

#[derive(Clone, Debug, Serialize, Deserialize)]
pub struct Case {
    pub inst: InstSpec,
    /// parameter ids: Some => delivered as a ParametricInstance (objective and active constraints may use them)
    pub params: Option<Vec<u64>>,
    pub faults: Vec<Mutation>,
    pub hash_seed: u64,
    /// handed over as built in memory by a Rust caller instead of through encode -> decode (prost does not write
    /// a -0.0 of an implicit-presence field, so signed zeros only arrive this way or from other encoders)
    #[serde(default)]
    pub direct: bool,
}

fn func_at<'a>(inst: &'a mut InstSpec, p: Place) -> Option<&'a mut Option<FuncSpec>> {
    match p {
        Place::Objective => Some(&mut inst.objective),
        Place::Constraint(i) => inst.constraints.get_mut(i).map(|c| &mut c.function),
        Place::Removed(i) => inst.removed.get_mut(i).and_then(|r| r.constraint.as_mut()).map(|c| &mut c.function),
    }
}
fn con_id(inst: &InstSpec, p: Place) -> Option<u64> {
    match p {
        Place::Constraint(i) => inst.constraints.get(i).map(|c| c.id),
        Place::Removed(i) => inst.removed.get(i).and_then(|r| r.constraint.as_ref()).map(|c| c.id),
        Place::Objective => None,
    }
}

pub fn mutations(inst: &InstSpec, params: &Option<Vec<u64>>) -> Vec<Mutation> {
    let mut m = vec![];
    for i in 0..inst.vars.len() {
        m.push(Mutation::DupVar(i));
        if params.is_none() {
            m.push(Mutation::UnsetKind(i));
            for s in [BoundShape::NanLower, BoundShape::NanUpper, BoundShape::PlusInfLower, BoundShape::MinusInfUpper, BoundShape::LowerAboveUpper] {
                m.push(Mutation::Bound(i, s));
            }
        }
    }
    let mut places: Vec<Place> = (0..inst.constraints.len()).map(Place::Constraint).collect();
    places.extend((0..inst.removed.len()).map(Place::Removed));
    for a in &places {
        for b in &places {
            if a != b {
                m.push(Mutation::DupConstraint(*a, *b));
            }
        }
    }
    let mut fplaces = vec![Place::Objective];
    fplaces.extend(places.iter().copied());
    for p in &fplaces {
        let f = match p {
            Place::Objective => inst.objective.as_ref(),
            Place::Constraint(i) => inst.constraints[*i].function.as_ref(),
            Place::Removed(i) => inst.removed[*i].constraint.as_ref().and_then(|c| c.function.as_ref()),
        };
        if let Some(f) = f {
            for k in 0..f.id_positions() {
                m.push(Mutation::UndefinedVar(*p, k));
            }
        }
        if params.is_none() {
            m.push(Mutation::UnsetOneof(*p));
            if *p != Place::Objective {
                m.push(Mutation::UnsetFunction(*p));
                m.push(Mutation::UnsetEquality(*p));
            }
        }
    }
    if params.is_none() {
        m.push(Mutation::UnsetSense);
        m.push(Mutation::UnsetObjective);
        for i in 0..inst.removed.len() {
            m.push(Mutation::RemovedWithoutConstraint(i));
        }
        if let Some(h) = &inst.hints {
            for (i, (_, vs)) in h.one_hot.iter().enumerate() {
                m.push(Mutation::HintOneHotUndefinedConstraint(i));
                for k in 0..vs.len() {
                    m.push(Mutation::HintOneHotUndefinedVar(i, k));
                }
                m.push(Mutation::HintOneHotRepeatedVar(i));
            }
            for (i, (_, ms, _)) in h.sos1.iter().enumerate() {
                m.push(Mutation::HintSos1UndefinedBinaryConstraint(i));
                m.push(Mutation::HintSos1UndefinedBigM(i));
                if !ms.is_empty() {
                    m.push(Mutation::HintSos1RepeatedBigM(i));
                }
                m.push(Mutation::HintSos1UndefinedVar(i));
                m.push(Mutation::HintSos1RepeatedVar(i));
            }
        }
        for i in 0..inst.deps.len() {
            m.push(Mutation::DepUndefinedKey(i));
        }
    }
    if let Some(ps) = params {
        for i in 0..ps.len() {
            if !inst.vars.is_empty() {
                m.push(Mutation::ParamCollidesWithVar(i));
            }
            m.push(Mutation::ParamDuplicated(i));
        }
    }
    m
}

pub fn apply(inst: &mut InstSpec, params: &mut Option<Vec<u64>>, mu: &Mutation) {
    match mu {
        Mutation::DupVar(i) => {
            if let Some(v) = inst.vars.get(*i).cloned() {
                inst.vars.push(v);
            }
        }
        Mutation::DupConstraint(a, b) => {
            if let Some(id) = con_id(inst, *a) {
                match b {
                    Place::Constraint(j) => {
                        if let Some(c) = inst.constraints.get_mut(*j) {
                            c.id = id
                        }
                    }
                    Place::Removed(j) => {
                        if let Some(c) = inst.removed.get_mut(*j).and_then(|r| r.constraint.as_mut()) {
                            c.id = id
                        }
                    }
                    Place::Objective => {}
                }
            }
        }
        Mutation::UndefinedVar(p, k) => {
            if let Some(Some(f)) = func_at(inst, *p) {
                if *k < f.id_positions() {
                    f.set_id_at(*k, UNDEFINED_ID);
                }
            }
        }
        Mutation::UnsetSense => inst.sense = 0,
        Mutation::UnsetObjective => inst.objective = None,
        Mutation::UnsetOneof(p) => {
            if let Some(f) = func_at(inst, *p) {
                *f = Some(FuncSpec::Unset);
            }
        }
        Mutation::UnsetFunction(p) => {
            if let Some(f) = func_at(inst, *p) {
                *f = None;
            }
        }
        Mutation::UnsetKind(i) => {
            if let Some(v) = inst.vars.get_mut(*i) {
                v.kind = 0
            }
        }
        Mutation::UnsetEquality(p) => match p {
            Place::Constraint(i) => {
                if let Some(c) = inst.constraints.get_mut(*i) {
                    c.equality = 0
                }
            }
            Place::Removed(i) => {
                if let Some(c) = inst.removed.get_mut(*i).and_then(|r| r.constraint.as_mut()) {
                    c.equality = 0
                }
            }
            Place::Objective => {}
        },
        Mutation::RemovedWithoutConstraint(i) => {
            if let Some(r) = inst.removed.get_mut(*i) {
                r.constraint = None
            }
        }
        Mutation::Bound(i, s) => {
            if let Some(v) = inst.vars.get_mut(*i) {
                v.bound = Some(match s {
                    BoundShape::NanLower => (F(f64::NAN), F(1.0)),
                    BoundShape::NanUpper => (F(0.0), F(f64::NAN)),
                    BoundShape::PlusInfLower => (F(f64::INFINITY), F(f64::INFINITY)),
                    BoundShape::MinusInfUpper => (F(f64::NEG_INFINITY), F(f64::NEG_INFINITY)),
                    BoundShape::LowerAboveUpper => (F(2.0), F(1.0)),
                })
            }
        }
        Mutation::HintOneHotUndefinedConstraint(i) => {
            if let Some(h) = inst.hints.as_mut().and_then(|h| h.one_hot.get_mut(*i)) {
                h.0 = UNDEFINED_ID
            }
        }
        Mutation::HintOneHotUndefinedVar(i, k) => {
            if let Some(h) = inst.hints.as_mut().and_then(|h| h.one_hot.get_mut(*i)) {
                if let Some(v) = h.1.get_mut(*k) {
                    *v = UNDEFINED_ID
                }
            }
        }
        Mutation::HintOneHotRepeatedVar(i) => {
            if let Some(h) = inst.hints.as_mut().and_then(|h| h.one_hot.get_mut(*i)) {
                if let Some(v) = h.1.first().copied() {
                    h.1.push(v)
                }
            }
        }
        Mutation::HintSos1UndefinedBinaryConstraint(i) => {
            if let Some(h) = inst.hints.as_mut().and_then(|h| h.sos1.get_mut(*i)) {
                h.0 = UNDEFINED_ID
            }
        }
        Mutation::HintSos1UndefinedBigM(i) => {
            if let Some(h) = inst.hints.as_mut().and_then(|h| h.sos1.get_mut(*i)) {
                h.1.push(UNDEFINED_ID)
            }
        }
        Mutation::HintSos1RepeatedBigM(i) => {
            if let Some(h) = inst.hints.as_mut().and_then(|h| h.sos1.get_mut(*i)) {
                if let Some(v) = h.1.first().copied() {
                    h.1.push(v)
                }
            }
        }
        Mutation::HintSos1UndefinedVar(i) => {
            if let Some(h) = inst.hints.as_mut().and_then(|h| h.sos1.get_mut(*i)) {
                h.2.push(UNDEFINED_ID)
            }
        }
        Mutation::HintSos1RepeatedVar(i) => {
            if let Some(h) = inst.hints.as_mut().and_then(|h| h.sos1.get_mut(*i)) {
                if let Some(v) = h.2.first().copied() {
                    h.2.push(v)
                }
            }
        }
        Mutation::DepUndefinedKey(i) => {
            if let Some(d) = inst.deps.get_mut(*i) {
                d.0 = UNDEFINED_ID + 1
            }
        }
        Mutation::ParamCollidesWithVar(i) => {
            if let (Some(ps), Some(v)) = (params.as_mut(), inst.vars.first()) {
                if let Some(p) = ps.get_mut(*i) {
                    *p = v.id
                }
            }
        }
        Mutation::ParamDuplicated(i) => {
            if let Some(ps) = params.as_mut() {
                if let Some(p) = ps.get(*i).copied() {
                    ps.push(p)
                }
            }
        }
    }
}

/// The well-formedness model: which rules does the (mutated) message break? Returns rule names.
#[derive(Default, Debug)]
pub struct Rules {
    /// the three ID rules of validate()
    pub id_rules: Vec<&'static str>,
    /// for each broken ID rule: (error kind, field of the message in which it is broken)
    pub id_fields: Vec<(&'static str, &'static str)>,
    /// the additional requirements of the typed conversion; (error kind, field that must appear in the path)
    pub extra: Vec<(&'static str, &'static str)>,
}

pub fn judge(inst: &InstSpec, params: &Option<Vec<u64>>) -> Rules {
    let mut r = Rules::default();
    let mut defined = BTreeSet::new();
    for v in &inst.vars {
        if !defined.insert(v.id) {
            r.id_rules.push("duplicate-variable-id");
            r.id_fields.push(("DuplicatedVariableID", "decision_variables"));
        }
    }
    if let Some(ps) = params {
        for p in ps {
            if !defined.insert(*p) {
                r.id_rules.push("duplicate-variable-or-parameter-id");
            }
        }
    }
    let mut cids = BTreeSet::new();
    let mut active = BTreeSet::new();
    for c in &inst.constraints {
        active.insert(c.id);
        if !cids.insert(c.id) {
            r.id_rules.push("duplicate-constraint-id");
            r.id_fields.push(("DuplicatedConstraintID", "constraints"));
        }
    }
    for rc in &inst.removed {
        if let Some(c) = &rc.constraint {
            if !cids.insert(c.id) {
                r.id_rules.push("duplicate-constraint-id");
                // a removed constraint repeating an active or an earlier removed ID is found in the removed list
                r.id_fields.push(("DuplicatedConstraintID", "removed_constraints"));
            }
        }
    }
    let mut used: BTreeSet<u64> = BTreeSet::new();
    if let Some(f) = &inst.objective {
        used.extend(f.ids());
    }
    for c in &inst.constraints {
        if let Some(f) = &c.function {
            used.extend(f.ids());
        }
    }
    if params.is_none() {
        // parametric instances: "covering all IDs used by the objective and active constraints"
        for rc in &inst.removed {
            if let Some(f) = rc.constraint.as_ref().and_then(|c| c.function.as_ref()) {
                used.extend(f.ids());
            }
        }
    }
    if !used.is_subset(&defined) {
        r.id_rules.push("undefined-variable-id");
        let undefined_in = |f: Option<&FuncSpec>| f.map(|f| !f.ids().is_subset(&defined)).unwrap_or(false);
        if undefined_in(inst.objective.as_ref()) {
            r.id_fields.push(("UndefinedVariableID", "objective"));
        }
        if inst.constraints.iter().any(|c| undefined_in(c.function.as_ref())) {
            r.id_fields.push(("UndefinedVariableID", "constraints"));
        }
        if inst.removed.iter().any(|rc| undefined_in(rc.constraint.as_ref().and_then(|c| c.function.as_ref()))) {
            r.id_fields.push(("UndefinedVariableID", "removed_constraints"));
        }
    }
    // typed conversion
    if inst.sense != 1 && inst.sense != 2 {
        r.extra.push(("UnspecifiedEnum", "sense"));
    }
    match &inst.objective {
        None => r.extra.push(("MissingField", "objective")),
        Some(FuncSpec::Unset) => r.extra.push(("UnsupportedV1Function", "objective")),
        _ => {}
    }
    let check_con = |c: &crate::model::exact::ConSpec, field: &'static str, r: &mut Rules| {
        match &c.function {
            None => r.extra.push(("MissingField", field)),
            Some(FuncSpec::Unset) => r.extra.push(("UnsupportedV1Function", field)),
            _ => {}
        }
        if c.equality != 1 && c.equality != 2 {
            r.extra.push(("UnspecifiedEnum", field));
        }
    };
    for c in &inst.constraints {
        check_con(c, "constraints", &mut r);
    }
    for rc in &inst.removed {
        match &rc.constraint {
            None => r.extra.push(("MissingField", "removed_constraints")),
            Some(c) => check_con(c, "removed_constraints", &mut r),
        }
    }
    for v in &inst.vars {
        if !(1..=5).contains(&v.kind) {
            r.extra.push(("UnspecifiedEnum", "decision_variables"));
        }
        if let Some((l, u)) = v.bound {
            if l.0.is_nan() || u.0.is_nan() || l.0 == f64::INFINITY || u.0 == f64::NEG_INFINITY || l.0 > u.0 {
                r.extra.push(("InvalidBound", "decision_variables"));
            }
        }
    }
    let var_ids: BTreeSet<u64> = inst.vars.iter().map(|v| v.id).collect();
    if let Some(h) = &inst.hints {
        for (c, vs) in &h.one_hot {
            if !active.contains(c) {
                r.extra.push(("UndefinedConstraintID", "constraint_hints"));
            }
            let mut seen = BTreeSet::new();
            for v in vs {
                if !var_ids.contains(v) {
                    r.extra.push(("UndefinedVariableID", "constraint_hints"));
                }
                if !seen.insert(*v) {
                    r.extra.push(("NonUniqueVariableID", "constraint_hints"));
                }
            }
        }
        for (b, ms, vs) in &h.sos1 {
            if !active.contains(b) {
                r.extra.push(("UndefinedConstraintID", "constraint_hints"));
            }
            let mut seen = BTreeSet::new();
            for m in ms {
                if !active.contains(m) {
                    r.extra.push(("UndefinedConstraintID", "constraint_hints"));
                }
                if !seen.insert(*m) {
                    r.extra.push(("NonUniqueConstraintID", "constraint_hints"));
                }
            }
            let mut seen = BTreeSet::new();
            for v in vs {
                if !var_ids.contains(v) {
                    r.extra.push(("UndefinedVariableID", "constraint_hints"));
                }
                if !seen.insert(*v) {
                    r.extra.push(("NonUniqueVariableID", "constraint_hints"));
                }
            }
        }
    }
    for (k, _) in &inst.deps {
        if !var_ids.contains(k) {
            r.extra.push(("UndefinedVariableID", "decision_variable_dependency"));
        }
    }
    r
}

fn parametric_v1(inst: &InstSpec, params: &[u64]) -> v1::ParametricInstance {
    let i = inst.to_v1();
    let mut p = v1::ParametricInstance::default();
    p.description = i.description;
    p.decision_variables = i.decision_variables;
    p.objective = i.objective;
    p.constraints = i.constraints;
    p.sense = i.sense;
    p.constraint_hints = i.constraint_hints;
    p.removed_constraints = i.removed_constraints;
    p.decision_variable_dependency = i.decision_variable_dependency;
    for id in params {
        let mut q = v1::Parameter::default();
        q.id = *id;
        p.parameters.push(q);
    }
    p
}

fn base_case(rng: &mut Rng) -> (InstSpec, Option<Vec<u64>>) {
    let mut inst = gen_instance(rng, &GenOpts { max_vars: 4, max_cons: 3, max_removed: 2, max_degree: 3, deps: true, hints: true });
    // the typed conversion requires present functions with a set oneof (the shared generator also produces the
    // absent / unset forms, which evaluation treats as zero)
    let fix = |f: &mut Option<FuncSpec>| {
        if f.is_none() || *f == Some(FuncSpec::Unset) {
            *f = Some(FuncSpec::Constant(F(0.0)));
        }
    };
    // a binary variable may carry any valid explicit bound; the typed view must carry it unchanged
    for v in &mut inst.vars {
        if v.kind == 1 && rng.chance(1, 3) {
            let (l, u) = *rng.pick(&[(-1.0, 2.0), (0.0, 5.0), (2.0, 3.0), (0.0, 0.0), (1.0, 1.0), (f64::NEG_INFINITY, f64::INFINITY), (0.5, 0.5)]);
            v.bound = Some((F(l), F(u)));
        }
    }
    // the two semi kinds (a value is 0 or inside the bound): bounds that exclude 0 are their ordinary case
    for v in &mut inst.vars {
        if v.kind != 1 && rng.chance(1, 6) {
            v.kind = 4 + rng.below(2) as i32;
            if rng.chance(2, 3) {
                let (l, u) = *rng.pick(&[(2.0, 5.0), (-3.0, -1.0), (0.5, 0.5), (1.0, f64::INFINITY), (f64::NEG_INFINITY, -2.5), (-1.0, 4.0)]);
                v.bound = Some((F(l), F(u)));
            }
        }
    }
    // corners of "valid bound": signed zeros at either end (0.0 <= -0.0 holds), a one-point subnormal interval,
    // ends at the edge of the finite range
    for v in &mut inst.vars {
        if v.kind != 1 && rng.chance(1, 5) {
            let (l, u) = *rng.pick(&[(0.0, -0.0), (-0.0, 0.0), (-0.0, -0.0), (5e-324, 5e-324), (-5e-324, 0.0), (f64::NEG_INFINITY, -f64::MAX), (f64::MAX, f64::INFINITY), (-1.0, -0.0), (0.0, 1e30)]);
            v.bound = Some((F(l), F(u)));
        }
    }
    fix(&mut inst.objective);
    for c in &mut inst.constraints {
        fix(&mut c.function);
    }
    for r in &mut inst.removed {
        if let Some(c) = &mut r.constraint {
            fix(&mut c.function);
        }
    }
    for d in &mut inst.deps {
        if d.1 == FuncSpec::Unset {
            d.1 = FuncSpec::Constant(F(0.0));
        }
    }
    let params = if rng.chance(1, 4) {
        // a parametric instance: parameters used in the objective and in active constraints
        let ps: Vec<u64> = (0..1 + rng.below(2)).map(|k| 500 + k * 7).collect();
        let mut ids: Vec<u64> = inst.vars.iter().map(|v| v.id).filter(|i| !inst.dep_ids().contains(i)).collect();
        ids.extend(ps.iter().copied());
        inst.objective = Some(crate::model::exact::gen_func(rng, &ids, 3));
        fix(&mut inst.objective);
        for c in &mut inst.constraints {
            c.function = Some(crate::model::exact::gen_func(rng, &ids, 3));
            fix(&mut c.function);
        }
        Some(ps)
    } else {
        None
    };
    (inst, params)
}

#[derive(Clone, Copy)]
pub struct C08;

impl Prop for C08 {
    type Case = Case;
    fn id(&self) -> &'static str {
        "C08"
    }
    fn level(&self) -> &'static str {
        "fault_enumeration"
    }
    fn runs(&self, tier: Tier) -> u64 {
        // sampled part: pairs of faults on fresh messages
        match tier {
            Tier::Quick => 10_000,
            Tier::Thorough => 400_000,
        }
    }
    fn gen(&self, rng: &mut Rng, _tier: Tier, _idx: u64) -> Case {
        let (inst, params) = base_case(rng);
        let ms = mutations(&inst, &params);
        let mut faults = vec![];
        // a fifth of the sampled cases stay well-formed (with the rarer bound corners and either delivery), a fifth
        // carry one fault, the rest a pair
        let n_faults = match rng.below(5) {
            0 => 0,
            1 => 1,
            _ => 2,
        };
        if !ms.is_empty() {
            for _ in 0..n_faults {
                faults.push(rng.pick(&ms).clone());
            }
        }
        let hash_seed = rng.next();
        Case { inst, params, faults, hash_seed, direct: rng.chance(1, 3) }
    }
    fn enum_plan(&self, tier: Tier, seed: u64) -> Vec<(u64, u64)> {
        // per message: the well-formed original, then every single fault at every position
        let n = match tier {
            Tier::Quick => 300,
            Tier::Thorough => 20_000,
        };
        (0..n)
            .map(|i| {
                let gs = mix(&[seed, 0xC08, i]);
                let (inst, params) = base_case(&mut Rng::new(gs));
                (1 + mutations(&inst, &params).len() as u64, gs)
            })
            .collect()
    }
    fn enum_case(&self, gs: u64, k: u64) -> Case {
        let (inst, params) = base_case(&mut Rng::new(gs));
        let ms = mutations(&inst, &params);
        let faults = if k == 0 { vec![] } else { vec![ms[(k - 1) as usize].clone()] };
        Case { inst, params, faults, hash_seed: gs ^ k, direct: false }
    }
    fn sibling(&self, c: &Case) -> Option<Case> {
        // every sixth case is preceded, in the same run, by another case of the property (generated from its hash seed)
        if c.hash_seed % 6 != 4 {
            return None;
        }
        Some(self.gen(&mut Rng::new(c.hash_seed ^ 0x51B1_1B15), Tier::Quick, 0))
    }

    fn sim_params(&self, c: &Case) -> SimParams {
        SimParams { hash_seed: c.hash_seed, ..Default::default() }
    }

    fn exec(&self, case: &Case, x: &mut Exec) {
        let mut inst = case.inst.clone();
        let mut params = case.params.clone();
        for f in &case.faults {
            apply(&mut inst, &mut params, f);
        }
        let rules = judge(&inst, &params);
        x.nontrivial = !case.faults.is_empty();
        x.begin_op(0);
        for f in &case.faults {
            let name = format!("{:?}", f);
            let name = name.split('(').next().unwrap().to_string();
            x.count(&format!("probe.fault.{}", name));
        }
        if case.faults.is_empty() {
            x.count("probe.wellformed_original");
            assert!(rules.id_rules.is_empty() && rules.extra.is_empty(), "generator produced a malformed original: {:?}", rules);
        }
        let describe = || format!("faults {:?}", case.faults);

        if let Some(ps) = &params {
            // ParametricInstance::validate, delivered over the wire
            let bytes = parametric_v1(&inst, ps).encode_to_vec();
            x.api("deliver", &format!("{} bytes {:016x}", bytes.len(), { let mut h = crate::rng::Fnv::new(); h.bytes(&bytes); h.0 }));
            let msg = if case.direct { parametric_v1(&inst, ps) } else { v1::ParametricInstance::decode(&bytes[..]).expect("decode what was just encoded") };
            match x.sut(|| msg.validate()) {
                Err(p) => x.violate("C08:panic", format!("ParametricInstance::validate panicked ({}): {p}", describe())),
                Ok(r) => {
                    x.api("ParametricInstance::validate", if r.is_ok() { "Ok" } else { "Err" });
                    match (rules.id_rules.is_empty(), r.is_ok()) {
                        (true, false) => x.violate("C08:parametric:wellformed-rejected", format!("{}: validate() rejects a message that satisfies the ID rules: {:#}", describe(), r.unwrap_err())),
                        (false, true) => x.violate(&format!("C08:parametric:accepted:{}", rules.id_rules[0]), format!("{}: validate() accepts although the rule(s) {:?} are broken", describe(), rules.id_rules)),
                        _ => {}
                    }
                }
            }
            return;
        }

        let bytes = inst.to_v1().encode_to_vec();
        x.api("deliver", &format!("{} bytes {:016x}", bytes.len(), { let mut h = crate::rng::Fnv::new(); h.bytes(&bytes); h.0 }));
        let msg = if case.direct {
            x.count("probe.delivered_in_memory");
            inst.to_v1()
        } else {
            v1::Instance::decode(&bytes[..]).expect("decode what was just encoded")
        };
        match x.sut(|| msg.validate()) {
            Err(p) => x.violate("C08:panic", format!("validate panicked ({}): {p}", describe())),
            Ok(r) => {
                x.api("validate", if r.is_ok() { "Ok" } else { "Err" });
                match (rules.id_rules.is_empty(), r.is_ok()) {
                    (true, false) => x.violate("C08:validate:wellformed-rejected", format!("{}: validate() rejects a message that satisfies the three ID rules: {:#}", describe(), r.unwrap_err())),
                    (false, true) => x.violate(&format!("C08:validate:accepted:{}", rules.id_rules[0]), format!("{}: validate() accepts although the rule(s) {:?} are broken", describe(), rules.id_rules)),
                    _ => {}
                }
            }
        }
        // typed conversion
        let typed = x.sut(|| ommx::Instance::try_from(msg.clone()));
        match typed {
            Err(p) => x.violate("C08:panic", format!("try_from panicked ({}): {p}", describe())),
            Ok(Ok(t)) => {
                x.api("try_from", "Ok");
                if !rules.id_rules.is_empty() {
                    x.violate(&format!("C08:try_from:accepted:{}", rules.id_rules[0]), format!("{}: try_from accepts although the rule(s) {:?} are broken", describe(), rules.id_rules));
                } else if !rules.extra.is_empty() {
                    x.violate(&format!("C08:try_from:accepted:{}:{}", rules.extra[0].0, rules.extra[0].1), format!("{}: try_from accepts although {:?} is broken", describe(), rules.extra));
                } else {
                    // same outcome for a second delivery (other hash order inside the typed instance)
                    if let Ok(Ok(t2)) = x.sut(|| ommx::Instance::try_from(msg.clone())) {
                        if t2 != t {
                            x.violate("C08:try_from:order-dependent", format!("{}: two conversions of the same message differ", describe()));
                        }
                    }
                }
            }
            Ok(Err(e)) => {
                let kind = format!("{:?}", e.error);
                let kind = kind.split(|c: char| !c.is_alphanumeric()).next().unwrap_or("").to_string();
                let path: Vec<&str> = e.context.iter().map(|c| c.field).collect();
                x.api("try_from", &format!("Err({} at {:?})", kind, path));
                if rules.id_rules.is_empty() && rules.extra.is_empty() {
                    x.violate("C08:try_from:wellformed-rejected", format!("{}: try_from rejects a well-formed message: {}", describe(), e));
                } else {
                    // the reported rule and path must name one of the broken rules
                    let mut acceptable: Vec<(String, &str)> = rules.extra.iter().map(|(k, f)| (k.to_string(), *f)).collect();
                    acceptable.extend(rules.id_fields.iter().map(|(k, f)| (k.to_string(), *f)));
                    let msg_field = match &e.error {
                        ommx::parse::RawParseError::MissingField { field, .. } => Some(*field),
                        _ => None,
                    };
                    let ok = acceptable.iter().any(|(k, f)| *k == kind && (path.contains(f) || msg_field == Some(*f) || (kind == "MissingField" && (path.contains(f) || path.is_empty()))));
                    if !ok {
                        x.violate("C08:try_from:wrong-rule-reported", format!("{}: broken {:?} {:?}; reported {} at path {:?}", describe(), rules.id_rules, rules.extra, kind, path));
                    } else {
                        x.count("probe.rejected_with_matching_rule");
                    }
                }
            }
        }
        // element-level typed views carry the content (well-formed elements only)
        if case.faults.is_empty() {
            for (vs, d) in inst.vars.iter().zip(msg.decision_variables.iter()) {
                match x.sut(|| d.clone().parse(&())) {
                    Ok(Ok(t)) => {
                        let (lo, hi) = match (vs.bound, vs.kind) {
                            (Some((l, u)), _) => (l.0, u.0),
                            (None, 1) => (0.0, 1.0),
                            (None, _) => (f64::NEG_INFINITY, f64::INFINITY),
                        };
                        if t.bound.lower() != lo || t.bound.upper() != hi {
                            x.violate(if vs.bound.is_none() { "C08:typed-view:absent-bound" } else { "C08:typed-view:bound" }, format!("variable {} (kind {}, bound {:?}): typed view has [{}, {}], the message means [{}, {}]", vs.id, vs.kind, vs.bound.map(|b| (b.0 .0, b.1 .0)), t.bound.lower(), t.bound.upper(), lo, hi));
                        }
                        let kind_no = match t.kind {
                            ommx::Kind::Binary => 1,
                            ommx::Kind::Integer => 2,
                            ommx::Kind::Continuous => 3,
                            ommx::Kind::SemiInteger => 4,
                            ommx::Kind::SemiContinuous => 5,
                        };
                        if *t.id != vs.id || kind_no != vs.kind || t.name != vs.name || t.substituted_value != vs.substituted.map(|f| f.0) || t.subscripts != d.subscripts || t.parameters != d.parameters || t.description != d.description {
                            x.violate("C08:typed-view:variable-content", format!("variable {}: typed view differs from the message", vs.id));
                        }
                    }
                    Ok(Err(e)) => x.violate("C08:typed-view:wellformed-rejected", format!("variable {}: {}", vs.id, e)),
                    Err(p) => x.violate("C08:panic", p),
                }
            }
            // constraint hints: the typed view keeps every hint, in order, with its content
            if let Some(h) = &msg.constraint_hints {
                let ctx = x.sut(|| -> Result<_, ommx::parse::ParseError> { Ok((msg.decision_variables.clone().parse(&())?, msg.constraints.clone().parse(&())?)) });
                if let Ok(Ok(ctx)) = ctx {
                    match x.sut(|| h.clone().parse(&ctx)) {
                        Ok(Ok(t)) => {
                            let oh_same = t.one_hot_constraints.len() == h.one_hot_constraints.len()
                                && t.one_hot_constraints.iter().zip(&h.one_hot_constraints).all(|(a, b)| *a.id == b.constraint_id && a.variables.iter().map(|v| **v).collect::<BTreeSet<u64>>() == b.decision_variables.iter().copied().collect::<BTreeSet<u64>>());
                            let sos_same = t.sos1_constraints.len() == h.sos1_constraints.len()
                                && t.sos1_constraints.iter().zip(&h.sos1_constraints).all(|(a, b)| {
                                    *a.binary_constraint_id == b.binary_constraint_id
                                        && a.big_m_constraint_ids.iter().map(|v| **v).collect::<BTreeSet<u64>>() == b.big_m_constraint_ids.iter().copied().collect::<BTreeSet<u64>>()
                                        && a.variables.iter().map(|v| **v).collect::<BTreeSet<u64>>() == b.decision_variables.iter().copied().collect::<BTreeSet<u64>>()
                                });
                            if !oh_same || !sos_same {
                                x.violate("C08:typed-view:hints-content", format!("typed hints {:?} differ from the message's {} one-hot / {} sos1 hints", t, h.one_hot_constraints.len(), h.sos1_constraints.len()));
                            }
                            x.count("probe.hints_view_checked");
                        }
                        Ok(Err(e)) => x.violate("C08:typed-view:wellformed-rejected", format!("hints: {}", e)),
                        Err(p) => x.violate("C08:panic", p),
                    }
                }
            }
            for c in &msg.constraints {
                match x.sut(|| c.clone().parse(&())) {
                    Ok(Ok(t)) => {
                        let eq = match t.equality {
                            ommx::Equality::EqualToZero => 1,
                            ommx::Equality::LessThanOrEqualToZero => 2,
                        };
                        let f_same = match (&t.function, c.function.as_ref().and_then(|f| f.function.as_ref())) {
                            (ommx::Function::Constant(a), Some(v1::function::Function::Constant(b))) => a == b,
                            (ommx::Function::Linear(a), Some(v1::function::Function::Linear(b))) => a == b,
                            (ommx::Function::Quadratic(a), Some(v1::function::Function::Quadratic(b))) => a == b,
                            (ommx::Function::Polynomial(a), Some(v1::function::Function::Polynomial(b))) => a == b,
                            _ => false,
                        };
                        if *t.id != c.id || eq != c.equality || !f_same || t.name != c.name || t.subscripts != c.subscripts || t.parameters != c.parameters || t.description != c.description {
                            x.violate("C08:typed-view:constraint-content", format!("constraint {}: typed view differs from the message", c.id));
                        }
                    }
                    Ok(Err(e)) => x.violate("C08:typed-view:wellformed-rejected", format!("constraint {}: {}", c.id, e)),
                    Err(p) => x.violate("C08:panic", p),
                }
            }
        }
    }

    fn shrink(&self, c: &Case) -> Vec<Case> {
        let mut out = vec![];
        if c.faults.len() > 1 {
            for i in 0..c.faults.len() {
                let mut f = c.faults.clone();
                f.remove(i);
                out.push(Case { faults: f, ..c.clone() });
            }
        }
        // dropping parts of the message is only safe when no fault refers to positions: keep it simple and
        // shrink the parts no fault can refer to
        if c.faults.iter().all(|f| !matches!(f, Mutation::DepUndefinedKey(_))) && !c.inst.deps.is_empty() {
            let mut n = c.clone();
            n.inst.deps.clear();
            out.push(n);
        }
        if c.faults.iter().all(|f| !format!("{:?}", f).starts_with("Hint")) && c.inst.hints.is_some() {
            let mut n = c.clone();
            n.inst.hints = None;
            out.push(n);
        }
        let refers_removed = c.faults.iter().any(|f| format!("{:?}", f).contains("Removed"));
        if !refers_removed && !c.inst.removed.is_empty() {
            let mut n = c.clone();
            n.inst.removed = Vec::<RemovedSpec>::new();
            out.push(n);
        }
        out
    }

    fn rule(&self) -> String {
        "enumerated part: for each of N seeded valid messages (instances with hints, dependencies, removed constraints; a quarter delivered as parametric instances) the well-formed original and EVERY single-fault mutation at EVERY position: duplicate each variable ID; duplicate each constraint ID (active-active, active-removed, removed-removed, both directions); an undefined variable at each ID position of the objective, each constraint and each removed constraint; unset sense / objective / function / oneof / kind / equality / removed.constraint; each invalid bound shape (NaN lower, NaN upper, +inf lower, -inf upper, lower>upper) on each variable; undefined or repeated IDs in every hint slot; undefined dependency key; parameter ID colliding with a variable ID or duplicated. Sampled part: pairs of such faults, single faults and well-formed messages with rarer valid bound shapes (signed zeros at either end, one-point subnormal intervals, ends at +-f64::MAX). Each case is handed to validate() and try_from() after encode -> decode or (a third of the sampled cases) as built in memory, which keeps signed zeros; oracle = reference well-formedness model (sim/src/props/c08.rs: judge). distinct = distinct event-log hash (API results); non-trivial = at least one fault".into()
    }
    fn assumptions(&self) -> Vec<String> {
        vec![
            "'used' means occurring in the message (also under a zero coefficient)".into(),
            "hints of valid messages refer to active constraints only (whether a hint may name a removed constraint is not settled by the statement)".into(),
            "with two faults the reported rule may be either".into(),
            "the typed Instance has no public accessors, so 'the typed view carries the same content' is checked on the element-level typed views (Parse for DecisionVariable and Constraint) and by equality of repeated conversions".into(),
        ]
    }
    fn real_components(&self) -> Vec<&'static str> {
        vec!["v1::Instance::validate", "v1::ParametricInstance::validate", "TryFrom<v1::Instance> for ommx::Instance", "Parse for DecisionVariable / Constraint / Bound / hints", "prost encode/decode"]
    }
    fn stub_components(&self) -> Vec<&'static str> {
        vec!["the faulty producer (mutation engine)", "OS randomness (seeded)"]
    }
    fn required_probes(&self, _t: Tier) -> Vec<&'static str> {
        vec!["probe.wellformed_original", "probe.hints_view_checked", "probe.rejected_with_matching_rule", "probe.fault.DupVar", "probe.fault.DupConstraint", "probe.fault.UndefinedVar", "probe.fault.UnsetSense", "probe.fault.UnsetObjective", "probe.fault.UnsetOneof", "probe.fault.UnsetFunction", "probe.fault.UnsetKind", "probe.fault.UnsetEquality", "probe.fault.RemovedWithoutConstraint", "probe.fault.Bound", "probe.fault.HintOneHotUndefinedVar", "probe.fault.HintSos1RepeatedVar", "probe.fault.DepUndefinedKey", "probe.fault.ParamCollidesWithVar"]
    }
}
