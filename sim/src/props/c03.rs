//! C03 — partial evaluation commutes with evaluation: histories of partial_evaluate steps (every order of the
//! parts, and all at once) followed by evaluate, on functions, constraints, removed constraints and instances,
//! against the exact Problem model; dependency-map order scheduled.

use crate::model::exact::{self, assign_of, diff_solution, functions_of, gen_instance, gen_state, ids_of, ref_evaluate, v1_state, GenOpts, InstSpec};
use crate::model::lp::F;
use crate::model::poly::{fx_f64, Poly};
use crate::rng::Rng;
use crate::runner::{remove_each, Exec, Prop, SimParams, Tier};
use ommx::v1;
use ommx::Evaluate;
use serde::{Deserialize, Serialize};
use std::collections::BTreeSet;

#[derive(Clone, Debug, Serialize, Deserialize)]
pub struct Case {
    pub inst: InstSpec,
    /// in-bound values for every independent variable
    pub total: Vec<(u64, F)>,
    /// disjoint sets of variables to fix, in the order they are applied
    pub parts: Vec<Vec<u64>>,
    /// forced iteration order of the dependency map (None: as the hash seed has it)
    pub dep_order: Option<Vec<u64>>,
    pub hash_seed: u64,
}

#[derive(Clone, Copy)]
pub struct C03;

fn sub_state(total: &[(u64, F)], ids: &[u64]) -> Vec<(u64, F)> {
    total.iter().filter(|(k, _)| ids.contains(k)).cloned().collect()
}

/// function / constraint level: g = f with `part` fixed
fn check_function(label: &str, f: &v1::Function, part: &[(u64, F)], total: &[(u64, F)], x: &mut Exec) {
    let before_ids = ids_of(Some(f));
    let pf = match Poly::from_function(Some(f)) {
        Ok(p) => p,
        Err(e) => panic!("reference model: {e}"),
    };
    let mut g = f.clone();
    let st = v1_state(part);
    let used = match x.sut(|| g.partial_evaluate(&st)) {
        Err(p) => {
            x.violate("C03:panic", format!("{label}: partial_evaluate panicked: {p}"));
            return;
        }
        Ok(Err(e)) => {
            x.violate("C03:function:partial-evaluate-fails", format!("{label}: {e:#}"));
            return;
        }
        Ok(Ok(u)) => u,
    };
    let fixed: BTreeSet<u64> = part.iter().map(|p| p.0).collect();
    let after_ids = ids_of(Some(&g));
    if let Some(id) = after_ids.intersection(&fixed).next() {
        x.violate("C03:function:still-mentions-fixed", format!("{label}: after fixing {:?} the function still mentions variable {id}", fixed));
    }
    for id in &used {
        if !fixed.contains(id) || !before_ids.contains(id) {
            x.violate("C03:function:used-set", format!("{label}: returned id {id} is not a fixed variable that occurred (fixed {:?}, occurring {:?})", fixed, before_ids));
        }
    }
    let expect = pf.partial(&assign_of(part)).expect("reference model");
    match Poly::from_function(Some(&g)) {
        Err(e) => x.violate("C03:function:coefficients", format!("{label}: result has a coefficient the inputs cannot produce: {e}")),
        Ok(pg) => {
            if pg != expect {
                x.violate("C03:function:coefficients", format!("{label}: expected [{}] got [{}]", expect.show(), pg.show()));
            }
        }
    }
    // then evaluate the remainder at the other variables
    let rest: Vec<(u64, F)> = total.iter().filter(|(k, _)| !fixed.contains(k)).cloned().collect();
    let want = pf.eval(&assign_of(total)).expect("reference model");
    match (want, x.sut(|| g.evaluate(&v1_state(&rest)))) {
        (_, Err(p)) => x.violate("C03:panic", format!("{label}: evaluate panicked: {p}")),
        (Ok(w), Ok(Ok((v, _)))) => {
            let w = fx_f64(w).expect("reference model");
            if v != w {
                x.violate("C03:function:value", format!("{label}: fixed then evaluated gives {v}, the original at the combined assignment is {w}"));
            }
        }
        (Ok(_), Ok(Err(e))) => x.violate("C03:function:evaluate-fails", format!("{label}: evaluating the remainder fails: {e:#}")),
        (Err(_), _) => {}
    }
}

fn run_history(label: &str, case: &Case, steps: &[Vec<u64>], x: &mut Exec) {
    let original = case.inst.to_v1();
    let mut inst = original.clone();
    if let Some(order) = &case.dep_order {
        let entries: Vec<(u64, v1::Function)> = case.inst.deps.iter().map(|(k, f)| (*k, f.to_v1())).collect();
        let (m, tries) = exact::force_order(&entries, order);
        inst.decision_variable_dependency = m;
        x.add("probe.map_order_rebuilds", tries);
        x.count("probe.forced_dependency_order");
    }
    let mut fixed_so_far: BTreeSet<u64> = BTreeSet::new();
    for (si, ids) in steps.iter().enumerate() {
        let part = sub_state(&case.total, ids);
        let before = inst.clone();
        let occurring: BTreeSet<u64> = functions_of(&before).iter().flat_map(|(_, f)| ids_of(f.as_ref())).collect();
        let st = v1_state(&part);
        let used = match x.sut(|| inst.partial_evaluate(&st)) {
            Err(p) => {
                x.violate("C03:panic", format!("{label} step {si}: Instance::partial_evaluate panicked: {p}"));
                return;
            }
            Ok(Err(e)) => {
                x.violate("C03:instance:partial-evaluate-fails", format!("{label} step {si}: {e:#}"));
                return;
            }
            Ok(Ok(u)) => u,
        };
        x.api("partial_evaluate", &format!("{:?}", used));
        fixed_so_far.extend(ids.iter().copied());
        for id in &used {
            if !ids.contains(id) || !occurring.contains(id) {
                x.violate("C03:instance:used-set", format!("{label} step {si}: returned id {id} is not a fixed variable that occurred (fixed {:?}, occurring {:?})", ids, occurring));
            }
        }
        let pa = assign_of(&part);
        let fb = functions_of(&before);
        let fa = functions_of(&inst);
        if fb.len() != fa.len() {
            x.violate("C03:instance:structure", format!("{label} step {si}: the number of functions changed from {} to {}", fb.len(), fa.len()));
            return;
        }
        // functions are matched by what they belong to (the order of the lists is not part of the statement)
        let fa_by_label: std::collections::BTreeMap<&String, &Option<v1::Function>> = fa.iter().map(|(l, f)| (l, f)).collect();
        for (lb, b) in fb.iter() {
            let (la, a) = match fa_by_label.get(lb) {
                Some(a) => (lb, *a),
                None => {
                    x.violate("C03:instance:structure", format!("{label} step {si}: {lb} is gone"));
                    continue;
                }
            };
            if let Some(id) = ids_of(a.as_ref()).intersection(&fixed_so_far).next() {
                x.violate("C03:instance:still-mentions-fixed", format!("{label} step {si}: {la} still mentions the fixed variable {id}"));
            }
            let expect = Poly::from_function(b.as_ref()).expect("reference model").partial(&pa).expect("reference model");
            match Poly::from_function(a.as_ref()) {
                Err(e) => x.violate("C03:instance:coefficients", format!("{label} step {si}: {la}: {e}")),
                Ok(p) => {
                    if p != expect {
                        let class = if la.starts_with("dependency") { "C03:instance:coefficients:dependency" } else if la.starts_with("removed") { "C03:instance:coefficients:removed-constraint" } else { "C03:instance:coefficients" };
                        x.violate(class, format!("{label} step {si}: {la}: expected [{}] got [{}]", expect.show(), p.show()));
                    }
                }
            }
        }
        for part_name in exact::untouched_diff(&before, &inst, false, false) {
            x.violate("C03:instance:untouched-part-changed", format!("{label} step {si}: partial_evaluate changed the instance's {part_name}"));
        }
        // each fixed value is recorded on its variable; nothing else about the variables changes
        if inst.decision_variables.len() != before.decision_variables.len() {
            x.violate("C03:instance:structure", format!("{label} step {si}: the number of decision variables changed"));
            return;
        }
        for b in before.decision_variables.iter() {
            let Some(a) = inst.decision_variables.iter().find(|a| a.id == b.id) else {
                x.violate("C03:instance:structure", format!("{label} step {si}: decision variable {} is gone", b.id));
                continue;
            };
            let mut b2 = b.clone();
            if let Some((_, v)) = part.iter().find(|(k, _)| *k == b.id) {
                if a.substituted_value != Some(v.0) {
                    x.violate("C03:instance:fixed-value-not-recorded", format!("{label} step {si}: variable {} fixed to {} but substituted_value is {:?}", b.id, v.0, a.substituted_value));
                }
                b2.substituted_value = a.substituted_value;
            }
            if &b2 != a {
                x.violate("C03:instance:variable-changed", format!("{label} step {si}: decision variable {} changed beyond its recorded value", b.id));
            }
        }
        // constraint identity and metadata stay
        for b in before.constraints.iter() {
            let Some(a) = inst.constraints.iter().find(|a| a.id == b.id) else { continue };
            let mut b2 = b.clone();
            b2.function = a.function.clone();
            if &b2 != a {
                x.violate("C03:instance:constraint-metadata", format!("{label} step {si}: constraint {} changed beyond its function", b.id));
            }
        }
        for b in before.removed_constraints.iter() {
            let bid = b.constraint.as_ref().map(|c| c.id);
            let Some(a) = inst.removed_constraints.iter().find(|a| a.constraint.as_ref().map(|c| c.id) == bid) else { continue };
            let mut b2 = b.clone();
            if let (Some(cb), Some(ca)) = (&mut b2.constraint, &a.constraint) {
                cb.function = ca.function.clone();
            }
            if &b2 != a {
                x.violate("C03:instance:constraint-metadata", format!("{label} step {si}: a removed constraint changed beyond its function"));
            }
        }
        if !x.violations.is_empty() {
            return;
        }
    }
    // evaluate the remainder
    let rest: Vec<(u64, F)> = case.total.iter().filter(|(k, _)| !fixed_so_far.contains(k)).cloned().collect();
    let reference = ref_evaluate(&original, &assign_of(&case.total)).expect("reference model");
    match x.sut(|| inst.evaluate(&v1_state(&rest))) {
        Err(p) => x.violate("C03:panic", format!("{label}: evaluate of the partially evaluated instance panicked: {p}")),
        Ok(Err(e)) => x.violate("C03:instance:evaluate-fails", format!("{label}: evaluating the remainder fails: {e:#}")),
        Ok(Ok((sol, _))) => {
            x.api("evaluate", &format!("objective={} feasible={}", sol.objective, sol.feasible));
            for (class, detail) in diff_solution(&reference, &sol).expect("reference model") {
                x.violate(&format!("C03:instance:solution:{class}"), format!("{label}: {detail}"));
            }
        }
    }
}

impl Prop for C03 {
    type Case = Case;
    fn id(&self) -> &'static str {
        "C03"
    }
    fn runs(&self, tier: Tier) -> u64 {
        match tier {
            Tier::Quick => 30_000,
            Tier::Thorough => 2_000_000,
        }
    }
    fn gen(&self, rng: &mut Rng, _tier: Tier, _idx: u64) -> Case {
        // an eighth of the cases are linear and give integer and binary variables values a hair (2^-31) inside an
        // integer, as a solver reports them: still exact in the reference arithmetic, and the value that must be
        // recorded is the given one
        let near_integer = rng.chance(1, 8);
        let mut inst = gen_instance(rng, &GenOpts { max_vars: 5, max_cons: 3, max_removed: 2, max_degree: if near_integer { 1 } else { 3 }, deps: true, hints: false });
        let mut total = gen_state(rng, &inst);
        if near_integer {
            let d = (0.5f64).powi(31);
            for (id, val) in total.iter_mut() {
                let Some(v) = inst.vars.iter().find(|v| v.id == *id) else { continue };
                if !(v.kind == 1 || v.kind == 2) || rng.chance(1, 2) {
                    continue;
                }
                let (lo, hi) = match (v.bound, v.kind) {
                    (Some((l, u)), _) => (l.0, u.0),
                    (None, 1) => (0.0, 1.0),
                    (None, _) => (f64::NEG_INFINITY, f64::INFINITY),
                };
                if val.0 + d <= hi {
                    val.0 += d;
                } else if val.0 - d >= lo {
                    val.0 -= d;
                }
            }
        }
        let mut ids: Vec<u64> = total.iter().map(|t| t.0).collect();
        rng.shuffle(&mut ids);
        let nparts = 1 + rng.usize(3);
        let mut parts: Vec<Vec<u64>> = vec![vec![]; nparts];
        for id in ids {
            // some variables stay for the final evaluate
            let k = rng.usize(nparts + 1);
            if k < nparts {
                parts[k].push(id);
                // the history partial_evaluate(x) -> substitute(y := ... x ...) leaves a variable that carries a
                // recorded value and occurs in functions again; fixing it once more (same value) must remove it
                if rng.chance(1, 8) {
                    let val = total.iter().find(|t| t.0 == id).map(|t| t.1);
                    if let Some(v) = inst.vars.iter_mut().find(|v| v.id == id) {
                        v.substituted = val;
                    }
                }
            }
        }
        let dep_order = if inst.deps.len() >= 2 && rng.chance(1, 2) {
            let mut o: Vec<u64> = inst.deps.iter().map(|d| d.0).collect();
            rng.shuffle(&mut o);
            Some(o)
        } else {
            None
        };
        Case { inst, total, parts, dep_order, hash_seed: rng.next() }
    }
    fn sibling(&self, c: &Case) -> Option<Case> {
        // every sixth case is preceded, in the same run, by another case of the property (generated from its hash seed)
        if c.hash_seed % 6 != 4 {
            return None;
        }
        Some(self.gen(&mut Rng::new(c.hash_seed ^ 0x51B1_1B15), Tier::Quick, 0))
    }

    fn sim_params(&self, c: &Case) -> SimParams {
        SimParams { hash_seed: c.hash_seed, ..Default::default() }
    }

    fn exec(&self, case: &Case, x: &mut Exec) {
        let inst = case.inst.to_v1();
        x.nontrivial = case.parts.iter().filter(|p| !p.is_empty()).count() >= 1 && functions_of(&inst).len() >= 2;
        x.begin_op(0);
        // function, constraint and removed-constraint level, first part
        let first = sub_state(&case.total, &case.parts[0]);
        // functions over independent variables only can be evaluated at `total`
        for (label, f) in functions_of(&inst) {
            if let Some(f) = f {
                check_function(&label, &f, &first, &case.total, x);
            }
        }
        for c in &inst.constraints {
            let mut c2 = c.clone();
            let st = v1_state(&first);
            match x.sut(|| c2.partial_evaluate(&st)) {
                Ok(Ok(_)) => {
                    let mut c3 = c.clone();
                    c3.function = c2.function.clone();
                    if c3 != c2 {
                        x.violate("C03:constraint:metadata", format!("Constraint::partial_evaluate changed constraint {} beyond its function", c.id));
                    }
                    let want = Poly::from_function(c.function.as_ref()).expect("reference").partial(&assign_of(&first)).expect("reference");
                    if Poly::from_function(c2.function.as_ref()).ok() != Some(want) {
                        x.violate("C03:constraint:coefficients", format!("Constraint::partial_evaluate of constraint {} gives a different function", c.id));
                    }
                }
                Ok(Err(e)) => x.violate("C03:constraint:fails", format!("{e:#}")),
                Err(p) => x.violate("C03:panic", p),
            }
        }
        for r in &inst.removed_constraints {
            let mut r2 = r.clone();
            let st = v1_state(&first);
            match x.sut(|| r2.partial_evaluate(&st)) {
                Ok(Ok(_)) => {
                    let f0 = r.constraint.as_ref().and_then(|c| c.function.as_ref());
                    let f1 = r2.constraint.as_ref().and_then(|c| c.function.as_ref());
                    let want = Poly::from_function(f0).expect("reference").partial(&assign_of(&first)).expect("reference");
                    if Poly::from_function(f1).ok() != Some(want) || r2.removed_reason != r.removed_reason || r2.removed_reason_parameters != r.removed_reason_parameters {
                        x.violate("C03:removed-constraint:coefficients", "RemovedConstraint::partial_evaluate gives a different function or loses the reason".to_string());
                    }
                }
                Ok(Err(e)) => x.violate("C03:removed-constraint:fails", format!("{e:#}")),
                Err(p) => x.violate("C03:panic", p),
            }
        }
        if !x.violations.is_empty() {
            return;
        }
        // instance level: the parts in the given order, in reverse order, and all at once
        x.begin_op(1);
        run_history("in order", case, &case.parts, x);
        if !x.violations.is_empty() {
            return;
        }
        if case.parts.len() >= 2 {
            x.begin_op(2);
            let mut rev = case.parts.clone();
            rev.reverse();
            run_history("reverse order", case, &rev, x);
            if !x.violations.is_empty() {
                return;
            }
            x.count("probe.two_orders_compared");
        }
        x.begin_op(3);
        let all: Vec<u64> = case.parts.iter().flatten().copied().collect();
        run_history("all at once", case, &[all], x);
    }

    fn shrink(&self, c: &Case) -> Vec<Case> {
        let mut out = vec![];
        for p in remove_each(&c.parts) {
            if !p.is_empty() {
                out.push(Case { parts: p, ..c.clone() });
            }
        }
        for i in 0..c.parts.len() {
            for j in 0..c.parts[i].len() {
                let mut n = c.clone();
                n.parts[i].remove(j);
                out.push(n);
            }
        }
        if c.dep_order.is_some() {
            out.push(Case { dep_order: None, ..c.clone() });
        }
        for i in 0..c.inst.constraints.len() {
            let mut n = c.clone();
            n.inst.constraints.remove(i);
            out.push(n);
        }
        for i in 0..c.inst.removed.len() {
            let mut n = c.clone();
            n.inst.removed.remove(i);
            out.push(n);
        }
        if !c.inst.deps.is_empty() && c.dep_order.is_none() {
            for i in 0..c.inst.deps.len() {
                let mut n = c.clone();
                let (k, _) = n.inst.deps.remove(i);
                // the variable becomes independent: give it a value
                n.total.push((k, F(0.0)));
                if let Some(v) = n.inst.vars.iter().find(|v| v.id == k) {
                    let ok = match v.bound {
                        Some((l, u)) => l.0 <= 0.0 && 0.0 <= u.0,
                        None => true,
                    };
                    if ok {
                        out.push(n);
                    }
                }
            }
        }
        if c.inst.objective.is_some() {
            let mut n = c.clone();
            n.inst.objective = None;
            out.push(n);
        }
        out
    }

    fn rule(&self) -> String {
        "one run = (valid instance with <=5 variables, <=3 active and <=2 removed constraints of degree <=3 in arbitrary representations, optional dependencies; an in-bound total assignment of small dyadic values; 1-3 disjoint parts to fix, the rest left for evaluate; optional forced order of the dependency map; hash seed). Checked: Function/Constraint/RemovedConstraint::partial_evaluate coefficient by coefficient and by value; Instance::partial_evaluate histories in the given order, the reverse order and all at once with invariants after every step (no fixed variable mentioned, returned IDs a subset of fixed-and-occurring, values recorded, metadata untouched, every function equal to the model's) and the final Solution equal to the exact reference evaluation of the original at the combined assignment. distinct = distinct event-log hash (digest of every API result); non-trivial = at least one non-empty part and >=2 functions".into()
    }
    fn assumptions(&self) -> Vec<String> {
        vec!["coefficients and values are small dyadic rationals: comparisons are exact, no tolerance".into(), "dependent variables are never fixed (the statement's states assign decision variables of the problem, not derived ones)".into()]
    }
    fn real_components(&self) -> Vec<&'static str> {
        vec!["Evaluate::{partial_evaluate, evaluate} for Function, Linear, Quadratic, Polynomial, Constraint, RemovedConstraint, Instance", "eval_dependencies, state completion"]
    }
    fn stub_components(&self) -> Vec<&'static str> {
        vec!["OS randomness (seeded: hash-map iteration order is a function of the seed; dependency map order forced explicitly)"]
    }
    fn required_probes(&self, _t: Tier) -> Vec<&'static str> {
        vec!["probe.two_orders_compared", "probe.forced_dependency_order"]
    }
}
