//! C07 — the wire format matches the published schema and round-trips. Two-party wire simulation: seeded,
//! schema-driven peers (descriptors from protoc over the working tree's .proto files, and from the Python
//! `_pb2.py` modules) exchange messages with the real prost bindings. The peer's legal encoding freedom, the
//! fragmentation of the buffer and the Rust side's own map order (seeded) are the schedule space.

use crate::model::pbwire::{self, Card, EncOpts, FVal, GenCfg, MsgVal, Schema, Ty, Val};
use crate::rng::{mix, Rng};
use crate::runner::{Exec, Prop, SimParams, Tier};
use serde::{Deserialize, Serialize};
use std::collections::{BTreeMap, BTreeSet};
use std::io::Write as _;
use std::sync::OnceLock;

include!(concat!(env!("OUT_DIR"), "/registry.rs"));

pub struct Env {
    pub proto: Schema,
    pub python: Schema,
    /// the schema as published (descriptor set of the pinned release, committed under /verif/golden): what
    /// earlier releases wrote and what other implementations were generated from
    pub golden: Schema,
    pub proto_files: Vec<String>,
}
static ENV: OnceLock<Env> = OnceLock::new();

pub const PROTO_ROOT: &str = concat!(env!("VERIF_REPO_ROOT"), "/proto");
pub const PY_ROOT: &str = concat!(env!("VERIF_REPO_ROOT"), "/python/ommx/ommx/v1");
pub const LEGACY_ARTIFACT: &str = concat!(env!("VERIF_REPO_ROOT"), "/data/random_lp_instance.ommx");

fn load_env() -> Result<Env, String> {
    let mut files: Vec<String> = std::fs::read_dir(format!("{PROTO_ROOT}/ommx/v1")).map_err(|e| e.to_string())?.flatten().map(|e| e.path().display().to_string()).filter(|p| p.ends_with(".proto")).collect();
    files.sort();
    let out = format!("{}/descriptor_set.bin", crate::runner::scratch_root());
    let _ = std::fs::create_dir_all(crate::runner::scratch_root());
    let st = std::process::Command::new("protoc").arg("-I").arg(PROTO_ROOT).arg("--include_imports").arg(format!("--descriptor_set_out={out}")).args(&files).output().map_err(|e| format!("protoc: {e}"))?;
    if !st.status.success() {
        return Err(format!("protoc failed on the working tree's .proto files: {}", String::from_utf8_lossy(&st.stderr)));
    }
    let proto = Schema::from_set_bytes(&std::fs::read(&out).map_err(|e| e.to_string())?)?;
    let _ = std::fs::remove_file(&out);
    // the serialized FileDescriptorProto embedded in each _pb2.py, cut out with python's own parser
    let script = r#"
import ast, glob, sys
for f in sorted(glob.glob(sys.argv[1] + '/*_pb2.py')):
    t = ast.parse(open(f, encoding='utf-8').read())
    for n in ast.walk(t):
        if isinstance(n, ast.Call) and getattr(n.func, 'attr', '') == 'AddSerializedFile':
            print(n.args[0].value.hex())
"#;
    let py = std::process::Command::new("python3").arg("-c").arg(script).arg(PY_ROOT).output().map_err(|e| format!("python3: {e}"))?;
    if !py.status.success() {
        return Err(format!("cannot read the Python descriptors: {}", String::from_utf8_lossy(&py.stderr)));
    }
    let mut pyfiles = vec![];
    for l in String::from_utf8_lossy(&py.stdout).lines() {
        let bytes: Vec<u8> = (0..l.len() / 2).map(|i| u8::from_str_radix(&l[2 * i..2 * i + 2], 16).unwrap_or(0)).collect();
        pyfiles.push(bytes);
    }
    let python = Schema::from_file_protos(&pyfiles)?;
    let gpath = crate::runner::verif_dir().join("golden/ommx_v1.descriptor_set.bin");
    let golden = Schema::from_set_bytes(&std::fs::read(&gpath).map_err(|e| format!("{}: {e}", gpath.display()))?)?;
    Ok(Env { proto, python, golden, proto_files: files })
}

pub fn env() -> &'static Env {
    ENV.get_or_init(|| match load_env() {
        Ok(e) => e,
        Err(e) => {
            eprintln!("HARNESS-ERROR: {e}");
            std::process::exit(2);
        }
    })
}

#[derive(Clone, Copy, Debug, Serialize, Deserialize, PartialEq, Eq)]
pub enum Peer {
    Schema,
    Python,
    /// a peer generated from the published schema (an earlier release, another implementation)
    Published,
}
#[derive(Clone, Debug, Serialize, Deserialize)]
pub enum Kind {
    /// static precondition: the table of #[prost] attributes against both descriptor sets
    Static,
    /// data/random_lp_instance.ommx, written by an earlier release
    Legacy,
    /// peer -> Rust -> peer
    Exchange { peer: Peer, msg_type: String, bytes_hex: String, frag: Vec<u32> },
    /// text -> protoc --encode -> Rust -> protoc --decode -> protoc --encode -> peer
    Protoc { msg_type: String, tree_seed: u64 },
}
#[derive(Clone, Debug, Serialize, Deserialize)]
pub struct Case {
    pub kind: Kind,
    pub hash_seed: u64,
}

/// prost turns protobuf names into UpperCamelCase (SOS1 -> Sos1), so names are matched case-insensitively
fn norm(n: &str) -> String {
    n.chars().filter(|c| *c != '_').flat_map(|c| c.to_lowercase()).collect()
}
/// the name under which the generated registry knows a schema type
fn rust_name(schema_name: &str) -> Option<&'static str> {
    let k = norm(schema_name);
    RUST_ITEMS.iter().find(|i| norm(i.proto_name) == k).map(|i| i.proto_name)
}

fn hex(b: &[u8]) -> String {
    b.iter().map(|x| format!("{:02x}", x)).collect()
}
fn unhex(s: &str) -> Vec<u8> {
    (0..s.len() / 2).map(|i| u8::from_str_radix(&s[2 * i..2 * i + 2], 16).unwrap_or(0)).collect()
}

/// a `bytes::Buf` made of fragments
struct Chain {
    parts: std::collections::VecDeque<Vec<u8>>,
    off: usize,
}
impl Chain {
    fn new(bytes: &[u8], frag: &[u32]) -> Chain {
        let mut parts = std::collections::VecDeque::new();
        let mut p = 0;
        let mut i = 0;
        while p < bytes.len() {
            let n = if frag.is_empty() { bytes.len() } else { (frag[i % frag.len()].max(1) as usize).min(bytes.len() - p) };
            parts.push_back(bytes[p..p + n].to_vec());
            p += n;
            i += 1;
        }
        Chain { parts, off: 0 }
    }
}
impl bytes::Buf for Chain {
    fn remaining(&self) -> usize {
        self.parts.iter().map(|p| p.len()).sum::<usize>() - self.off
    }
    fn chunk(&self) -> &[u8] {
        match self.parts.front() {
            Some(p) => &p[self.off..],
            None => &[],
        }
    }
    fn advance(&mut self, mut cnt: usize) {
        while cnt > 0 {
            let front = self.parts.front().expect("advance past the end").len() - self.off;
            if cnt < front {
                self.off += cnt;
                return;
            }
            cnt -= front;
            self.off = 0;
            self.parts.pop_front();
        }
        // never rest on an exhausted fragment
        while self.parts.front().map(|p| p.len() == self.off).unwrap_or(false) {
            self.parts.pop_front();
            self.off = 0;
        }
    }
}

struct Attr {
    tags: Vec<u32>,
    keyword: String,
    label: String,
    enumeration: Option<String>,
    map: Option<(String, String)>,
    oneof: Option<String>,
}
fn parse_attr(a: &str) -> Attr {
    // #[prost(message, optional, tag = "3")] / #[prost(oneof = "function::Function", tags = "1, 2, 3, 4")] / map = "k, v"
    let inner = a.trim().trim_start_matches("#[prost(").trim_end_matches(")]");
    let mut parts: Vec<String> = vec![];
    let mut cur = String::new();
    let mut inq = false;
    for c in inner.chars() {
        match c {
            '"' => {
                inq = !inq;
                cur.push(c)
            }
            ',' if !inq => {
                parts.push(cur.trim().to_string());
                cur.clear()
            }
            c => cur.push(c),
        }
    }
    if !cur.trim().is_empty() {
        parts.push(cur.trim().to_string());
    }
    let mut at = Attr { tags: vec![], keyword: String::new(), label: String::new(), enumeration: None, map: None, oneof: None };
    for p in parts {
        if let Some((k, v)) = p.split_once('=') {
            let k = k.trim();
            let v = v.trim().trim_matches('"');
            match k {
                "tag" => at.tags = vec![v.parse().unwrap_or(0)],
                "tags" => at.tags = v.split(',').filter_map(|x| x.trim().parse().ok()).collect(),
                "enumeration" => {
                    at.keyword = "enumeration".into();
                    at.enumeration = Some(v.to_string())
                }
                "map" => {
                    at.keyword = "map".into();
                    let (a, b) = v.split_once(',').unwrap_or((v, ""));
                    at.map = Some((a.trim().to_string(), b.trim().to_string()));
                }
                "oneof" => {
                    at.keyword = "oneof".into();
                    at.oneof = Some(v.to_string())
                }
                _ => {}
            }
        } else {
            match p.as_str() {
                "optional" | "repeated" | "required" => at.label = p,
                "packed" | "boxed" => {}
                kw => {
                    if at.keyword.is_empty() {
                        at.keyword = kw.to_string()
                    }
                }
            }
        }
    }
    at
}

fn map_kw(t: &Ty) -> String {
    match t {
        Ty::Enum(_) => "enumeration".into(),
        t => t.prost_keyword(),
    }
}

/// static comparison of the Rust bindings with one descriptor set; returns (class, detail)
fn static_diff(s: &Schema, which: &str) -> Vec<(String, String)> {
    let mut out = vec![];
    let rust_msgs: BTreeMap<String, &RustItem> = RUST_ITEMS.iter().filter(|i| i.kind == "message").map(|i| (norm(i.proto_name), i)).collect();
    let schema_msgs: BTreeMap<String, &pbwire::MsgDesc> = s.messages.iter().map(|(k, v)| (norm(k), v)).collect();
    for n in s.messages.keys() {
        if !rust_msgs.contains_key(&norm(n)) {
            out.push(("type-missing-in-rust".into(), format!("{which}: message {n} has no Rust binding")));
        }
    }
    for (n, it) in &rust_msgs {
        let n = &it.proto_name.to_string();
        let Some(d) = schema_msgs.get(&norm(n)).copied() else {
            out.push(("type-missing-in-schema".into(), format!("{which}: Rust binding {n} ({}) is not a message of the schema", it.rust_path)));
            continue;
        };
        let mut covered: BTreeSet<u32> = BTreeSet::new();
        for f in it.fields {
            let a = parse_attr(f.attr);
            if let Some(path) = &a.oneof {
                // find the oneof enum by its Rust path suffix
                let oneof = RUST_ITEMS.iter().find(|i| i.kind == "oneof" && i.rust_path.ends_with(&format!("::{}", path)));
                // the schema's oneof is found through its members, not through its name (the wire does not see names)
                let group = a.tags.iter().find_map(|t| d.fields.iter().find(|x| x.number == *t).and_then(|x| x.oneof));
                let members: BTreeSet<u32> = d.fields.iter().filter(|x| x.oneof.is_some() && x.oneof == group).map(|x| x.number).collect();
                let tags: BTreeSet<u32> = a.tags.iter().copied().collect();
                if members != tags {
                    out.push(("oneof-members".into(), format!("{which}: {n}.{}: Rust lists tags {:?}, the schema's oneof has {:?}", f.name, tags, members)));
                }
                match oneof {
                    None => out.push(("oneof-members".into(), format!("{which}: {n}.{}: oneof enum {path} not found in the bindings", f.name))),
                    Some(o) => {
                        let vt: BTreeSet<u32> = o.fields.iter().flat_map(|v| parse_attr(v.attr).tags).collect();
                        if vt != tags {
                            out.push(("oneof-members".into(), format!("{which}: {n}.{}: the oneof enum has variants for tags {:?}, the field lists {:?}", f.name, vt, tags)));
                        }
                        for v in o.fields {
                            let va = parse_attr(v.attr);
                            let Some(fd) = d.fields.iter().find(|x| Some(x.number) == va.tags.first().copied()) else {
                                out.push(("field-missing-in-schema".into(), format!("{which}: {n}: oneof variant {} has tag {:?} which the schema does not define", v.name, va.tags)));
                                continue;
                            };
                            covered.insert(fd.number);
                            if map_kw(&fd.ty) != va.keyword {
                                out.push(("field-type".into(), format!("{which}: {n}.{} (tag {}): schema type {:?}, Rust attribute `{}`", fd.name, fd.number, fd.ty, v.attr)));
                            }
                        }
                    }
                }
                continue;
            }
            let Some(tag) = a.tags.first().copied() else {
                out.push(("attribute".into(), format!("{which}: {n}.{}: no tag in `{}`", f.name, f.attr)));
                continue;
            };
            // the same name under another number: the two sides disagree on what the number means
            if let Some(other) = d.fields.iter().find(|x| x.name == f.name.trim_start_matches("r#") && x.number != tag) {
                out.push(("field-number".into(), format!("{which}: {n}.{} has tag {tag} in Rust and number {} in the schema", f.name, other.number)));
                covered.insert(other.number);
                continue;
            }
            let Some(fd) = d.fields.iter().find(|x| x.number == tag) else {
                out.push(("field-missing-in-schema".into(), format!("{which}: {n}.{} has tag {tag} which the schema does not define", f.name)));
                continue;
            };
            covered.insert(tag);
            match &fd.card {
                Card::Map(k, v) => match &a.map {
                    Some((rk, rv)) => {
                        let rv_kw = if rv.starts_with("enumeration") { "enumeration".to_string() } else { rv.clone() };
                        if map_kw(k) != *rk || map_kw(v) != rv_kw {
                            out.push(("field-type".into(), format!("{which}: {n}.{} (tag {tag}): schema map<{:?},{:?}>, Rust attribute `{}`", fd.name, k, v, f.attr)));
                        }
                    }
                    None => out.push(("field-label".into(), format!("{which}: {n}.{} (tag {tag}) is a map in the schema, Rust attribute `{}`", fd.name, f.attr))),
                },
                card => {
                    if a.map.is_some() {
                        out.push(("field-label".into(), format!("{which}: {n}.{} (tag {tag}) is not a map in the schema, Rust attribute `{}`", fd.name, f.attr)));
                        continue;
                    }
                    if map_kw(&fd.ty) != a.keyword {
                        out.push(("field-type".into(), format!("{which}: {n}.{} (tag {tag}): schema type {:?}, Rust attribute `{}`", fd.name, fd.ty, f.attr)));
                    }
                    let want = match card {
                        Card::Implicit => "",
                        Card::Optional => "optional",
                        Card::Repeated => "repeated",
                        Card::Map(..) => unreachable!(),
                    };
                    if fd.oneof.is_some() {
                        out.push(("field-label".into(), format!("{which}: {n}.{} (tag {tag}) is a oneof member in the schema but a plain field in Rust", fd.name)));
                    } else if want != a.label {
                        out.push(("field-label".into(), format!("{which}: {n}.{} (tag {tag}): schema label `{want}`, Rust attribute `{}`", fd.name, f.attr)));
                    }
                    if let (Ty::Enum(en), Some(re)) = (&fd.ty, &a.enumeration) {
                        // the Rust enum path must name the schema's enum
                        let last = en.rsplit('.').next().unwrap_or("");
                        if norm(re.rsplit("::").next().unwrap_or("")) != norm(last) {
                            out.push(("field-type".into(), format!("{which}: {n}.{} (tag {tag}): schema enum {en}, Rust enumeration {re}", fd.name)));
                        }
                    }
                }
            }
        }
        for fd in &d.fields {
            if !covered.contains(&fd.number) {
                out.push(("field-missing-in-rust".into(), format!("{which}: {n}.{} (tag {}) has no Rust field", fd.name, fd.number)));
            }
        }
    }
    // enums
    let rust_enums: BTreeMap<String, &RustItem> = RUST_ITEMS.iter().filter(|i| i.kind == "enum").map(|i| (norm(i.proto_name), i)).collect();
    let schema_enums: BTreeSet<String> = s.enums.keys().map(|k| norm(k)).collect();
    for (n, vals) in &s.enums {
        match rust_enums.get(&norm(n)) {
            None => out.push(("type-missing-in-rust".into(), format!("{which}: enum {n} has no Rust binding"))),
            Some(it) => {
                let a: BTreeSet<(String, i64)> = vals.iter().map(|v| (v.0.clone(), v.1 as i64)).collect();
                let b: BTreeSet<(String, i64)> = it.values.iter().map(|v| (v.2.to_string(), v.1)).collect();
                // a constant is identified by name and number: the same name under another number, or a number
                // that one side lacks, is a difference; a constant merely renamed on one side is not
                let moved = a.iter().any(|(n, k)| b.iter().any(|(n2, k2)| n == n2 && k != k2));
                let na: BTreeSet<i64> = a.iter().map(|v| v.1).collect();
                let nb: BTreeSet<i64> = b.iter().map(|v| v.1).collect();
                if moved || na != nb {
                    out.push(("enum-values".into(), format!("{which}: enum {n}: schema {:?}, Rust {:?}", a, b)));
                }
            }
        }
    }
    for (n, it) in &rust_enums {
        if !schema_enums.contains(n) {
            out.push(("type-missing-in-schema".into(), format!("{which}: Rust enum {} is not in the schema", it.proto_name)));
        }
    }
    out
}

fn protoc_io(args: &[&str], files: &[String], input: &[u8]) -> Result<Vec<u8>, String> {
    let mut ch = std::process::Command::new("protoc")
        .arg("-I")
        .arg(PROTO_ROOT)
        .args(args)
        .args(files)
        .stdin(std::process::Stdio::piped())
        .stdout(std::process::Stdio::piped())
        .stderr(std::process::Stdio::piped())
        .spawn()
        .map_err(|e| format!("protoc: {e}"))?;
    ch.stdin.take().unwrap().write_all(input).map_err(|e| e.to_string())?;
    let o = ch.wait_with_output().map_err(|e| e.to_string())?;
    if !o.status.success() {
        return Err(format!("protoc {:?}: {}", args, String::from_utf8_lossy(&o.stderr)));
    }
    Ok(o.stdout)
}

fn schema_of(e: &Env, p: Peer) -> &Schema {
    match p {
        Peer::Schema => &e.proto,
        Peer::Python => &e.python,
        Peer::Published => &e.golden,
    }
}

#[derive(Clone, Copy)]
pub struct C07;

fn gen_cfg(protoc: bool) -> GenCfg {
    GenCfg { max_depth: 3, unknown_enums: !protoc, special_floats: !protoc }
}

impl C07 {
    fn type_list() -> Vec<String> {
        env().proto.messages.keys().cloned().collect()
    }
}

impl Prop for C07 {
    type Case = Case;
    fn id(&self) -> &'static str {
        "C07"
    }
    fn runs(&self, tier: Tier) -> u64 {
        match tier {
            Tier::Quick => 40_000,
            Tier::Thorough => 3_000_000,
        }
    }
    fn gen(&self, rng: &mut Rng, _tier: Tier, idx: u64) -> Case {
        let e = env();
        let peer = *rng.pick(&[Peer::Schema, Peer::Schema, Peer::Python, Peer::Published]);
        let s = schema_of(e, peer);
        let types: Vec<&String> = s.messages.keys().collect();
        // every type gets its turn, the big ones more often
        let msg_type = if idx % 3 == 0 { types[(idx / 3) as usize % types.len()].clone() } else { (*rng.pick(&types)).clone() };
        let tree = pbwire::gen_msg(s, &msg_type, rng, 0, &gen_cfg(false));
        let opts = EncOpts::random(rng);
        let bytes = pbwire::encode(s, &tree, &opts);
        // the peer must understand itself: decode(encode(tree)) == normalize(tree)
        let mut want = tree.clone();
        want.normalize(s);
        let mut back = pbwire::decode(s, &msg_type, &bytes).unwrap_or_else(|e| panic!("peer cannot decode its own encoding of {msg_type}: {e}"));
        back.normalize(s);
        assert!(back == want, "peer codec is not self-consistent for {msg_type} with {:?}", opts);
        let frag = match rng.below(5) {
            0 | 1 => vec![],
            2 => vec![1],
            3 => vec![1 + rng.below(7) as u32, 1 + rng.below(3) as u32],
            _ => vec![1 + rng.below(64) as u32],
        };
        Case { kind: Kind::Exchange { peer, msg_type, bytes_hex: hex(&bytes), frag }, hash_seed: rng.next() }
    }
    fn enum_plan(&self, tier: Tier, seed: u64) -> Vec<(u64, u64)> {
        let n = match tier {
            Tier::Quick => 40,
            Tier::Thorough => 3000,
        };
        vec![(2, 0), (n, mix(&[seed, 0xC07]))]
    }
    fn enum_case(&self, gs: u64, k: u64) -> Case {
        if gs == 0 {
            return Case { kind: if k == 0 { Kind::Static } else { Kind::Legacy }, hash_seed: 7 };
        }
        let types = C07::type_list();
        let mut rng = Rng::new(mix(&[gs, k]));
        let msg_type = types[k as usize % types.len()].clone();
        Case { kind: Kind::Protoc { msg_type, tree_seed: rng.next() }, hash_seed: rng.next() }
    }
    fn sibling(&self, c: &Case) -> Option<Case> {
        // every sixth case is preceded, in the same run, by another case of the property (generated from its hash seed)
        if c.hash_seed % 6 != 4 {
            return None;
        }
        Some(self.gen(&mut Rng::new(c.hash_seed ^ 0x51B1_1B15), Tier::Quick, 0))
    }

    fn sim_params(&self, c: &Case) -> SimParams {
        SimParams { hash_seed: c.hash_seed, ..Default::default() }
    }
    fn prepare(&self) {
        let _ = env();
    }

    fn exec(&self, case: &Case, x: &mut Exec) {
        let e = env();
        x.begin_op(0);
        match &case.kind {
            Kind::Static => {
                x.nontrivial = true;
                x.count("probe.static_table_compared");
                for (c, d) in static_diff(&e.proto, "proto/") {
                    x.violate(&format!("C07:static:{c}"), d);
                }
                for (c, d) in static_diff(&e.python, "python _pb2") {
                    x.violate(&format!("C07:static:python:{c}"), d);
                }
                // the Python bindings carry the same schema as the .proto files (names may lag behind a rename: the
                // wire does not see them)
                let mut d = pbwire::compat_diff(&e.proto, &e.python);
                d.extend(pbwire::compat_diff(&e.python, &e.proto));
                if !d.is_empty() {
                    d.truncate(6);
                    x.violate("C07:static:python-differs-from-proto", format!("the descriptors embedded in the Python bindings differ from the .proto files: {:?}", d));
                }
                // the published schema must still be part of the working tree's schema: a field or enum value that
                // was renumbered, re-typed, re-labelled or removed (even consistently in all three copies) makes
                // stored artifacts and other implementations unreadable; additions and mere renames are fine
                let mut lost = pbwire::compat_diff(&e.golden, &e.proto);
                if !lost.is_empty() {
                    lost.truncate(6);
                    x.violate("C07:static:published-schema-changed", format!("the working tree's .proto files no longer define what was published: {:?}", lost));
                }
                for (c, d) in static_diff(&e.golden, "published schema") {
                    if c == "field-missing-in-schema" || c == "type-missing-in-schema" {
                        continue; // additions to the bindings are not a compatibility problem
                    }
                    x.violate(&format!("C07:static:published:{c}"), d);
                }
                x.api("static", &format!("{} messages {} enums", e.proto.messages.len(), e.proto.enums.len()));
                x.add("probe.schema_messages", e.proto.messages.len() as u64);
                x.add("probe.rust_items", RUST_ITEMS.len() as u64);
            }
            Kind::Legacy => {
                x.nontrivial = true;
                x.count("probe.legacy_artifact");
                let r = x.sut(|| -> anyhow::Result<Vec<Vec<u8>>> {
                    let mut a = ommx::artifact::Artifact::from_oci_archive(std::path::Path::new(LEGACY_ARTIFACT))?;
                    let mut blobs = vec![];
                    for (_, inst) in a.get_instances()? {
                        inst.validate()?;
                        use prost::Message;
                        blobs.push(inst.encode_to_vec());
                    }
                    anyhow::ensure!(!blobs.is_empty(), "no instance layer");
                    Ok(blobs)
                });
                match r {
                    Err(p) => x.violate("C07:panic", format!("reading the legacy artifact panicked: {p}")),
                    Ok(Err(er)) => x.violate("C07:legacy-artifact-unreadable", format!("{LEGACY_ARTIFACT}: {er:#}")),
                    Ok(Ok(blobs)) => {
                        x.api("legacy", &format!("{} instances", blobs.len()));
                        for b in blobs {
                            // what Rust wrote must mean the same to the schema peer as what Rust reads back
                            match pbwire::decode(&e.proto, "ommx.v1.Instance", &b) {
                                Err(er) => x.violate("C07:legacy-artifact-unreadable", format!("the schema peer cannot decode the instance: {er}")),
                                Ok(t) => {
                                    if t.fields.is_empty() {
                                        x.violate("C07:legacy-artifact-unreadable", "the legacy instance decodes to an empty message".into());
                                    }
                                }
                            }
                        }
                    }
                }
            }
            Kind::Exchange { peer, msg_type, bytes_hex, frag } => {
                let s = schema_of(e, *peer);
                let bytes = unhex(bytes_hex);
                x.nontrivial = bytes.len() > 2;
                x.count(match peer {
                    Peer::Python => "probe.exchange.python_peer",
                    Peer::Schema => "probe.exchange.schema_peer",
                    Peer::Published => "probe.exchange.published_schema_peer",
                });
                if frag.len() > 0 {
                    x.count("probe.fragmented_buffer");
                }
                let mut want = match pbwire::decode(s, msg_type, &bytes) {
                    Ok(t) => t,
                    Err(er) => panic!("peer cannot decode the recorded bytes: {er}"),
                };
                want.normalize(s);
                let mut cov = BTreeSet::new();
                want.coverage(s, &mut cov);
                for (t, n) in cov {
                    x.count(&format!("cov.{}#{}", norm(&t), n));
                }
                let mut chain = Chain::new(&bytes, frag);
                let rname = rust_name(msg_type).unwrap_or("?");
                let re = x.sut(|| reencode(rname, &mut chain));
                let out = match re {
                    Err(p) => return x.violate("C07:panic", format!("{msg_type}: decode/encode panicked: {p}")),
                    Ok(None) => return x.violate("C07:static:type-missing-in-rust", format!("{msg_type} has no Rust binding")),
                    Ok(Some(Err(er))) => return x.violate("C07:decode-error", format!("{msg_type}: the Rust bindings reject bytes of a conforming producer: {er} (bytes {bytes_hex})")),
                    Ok(Some(Ok(o))) => o,
                };
                x.api("reencode", &format!("{} -> {} bytes", bytes.len(), out.len()));
                match pbwire::decode(s, msg_type, &out) {
                    Err(er) => x.violate("C07:rust-output-unreadable", format!("{msg_type}: the peer cannot decode what Rust encoded: {er}")),
                    Ok(mut got) => {
                        got.normalize(s);
                        if got != want {
                            let d = first_diff(&want, &got, s);
                            x.violate("C07:content-changed", format!("{msg_type}: sent and received content differ at {d}"));
                        }
                    }
                }
                match x.sut(|| self_roundtrip(rname, &bytes)) {
                    Ok(Some(Ok(true))) => {}
                    Ok(Some(Ok(false))) => x.violate("C07:self-roundtrip", format!("{msg_type}: decode(encode(m)) != m")),
                    Ok(Some(Err(er))) => x.violate("C07:self-roundtrip", format!("{msg_type}: {er}")),
                    Ok(None) => {}
                    Err(p) => x.violate("C07:panic", p),
                }
            }
            Kind::Protoc { msg_type, tree_seed } => {
                x.nontrivial = true;
                x.count("probe.protoc_loop");
                let s = &e.proto;
                let mut tree = pbwire::gen_msg(s, msg_type, &mut Rng::new(*tree_seed), 0, &gen_cfg(true));
                tree.normalize(s);
                let mut text = String::new();
                pbwire::to_text(s, &tree, 0, &mut text);
                let enc = format!("--encode={msg_type}");
                let dec = format!("--decode={msg_type}");
                let b1 = match protoc_io(&[&enc], &e.proto_files, text.as_bytes()) {
                    Ok(b) => b,
                    Err(er) => panic!("protoc rejects the peer's text rendering of {msg_type}: {er}\n{text}"),
                };
                // libprotobuf and the peer must agree on what the bytes mean (a check of the simulator itself)
                let mut t1 = pbwire::decode(s, msg_type, &b1).unwrap_or_else(|er| panic!("peer cannot decode protoc's bytes: {er}"));
                t1.normalize(s);
                assert!(t1 == tree, "the peer and libprotobuf disagree on {msg_type}: {}", first_diff(&tree, &t1, s));
                let mut chain = Chain::new(&b1, &[]);
                let rname = rust_name(msg_type).unwrap_or("?");
                let out = match x.sut(|| reencode(rname, &mut chain)) {
                    Ok(Some(Ok(o))) => o,
                    Ok(Some(Err(er))) => return x.violate("C07:decode-error", format!("{msg_type}: the Rust bindings reject bytes written by libprotobuf: {er}")),
                    Ok(None) => return x.violate("C07:static:type-missing-in-rust", format!("{msg_type} has no Rust binding")),
                    Err(p) => return x.violate("C07:panic", p),
                };
                let text2 = match protoc_io(&[&dec], &e.proto_files, &out) {
                    Ok(t) => t,
                    Err(er) => return x.violate("C07:rust-output-unreadable", format!("{msg_type}: libprotobuf cannot decode what Rust encoded: {er}")),
                };
                let b3 = match protoc_io(&[&enc], &e.proto_files, &text2) {
                    Ok(b) => b,
                    Err(er) => panic!("protoc cannot re-encode its own text: {er}"),
                };
                let mut t3 = pbwire::decode(s, msg_type, &b3).unwrap_or_else(|er| panic!("peer cannot decode protoc's bytes: {er}"));
                t3.normalize(s);
                x.api("protoc-loop", &format!("{} bytes", out.len()));
                if t3 != tree {
                    x.violate("C07:content-changed", format!("{msg_type}: libprotobuf reads different content from Rust's output at {}", first_diff(&tree, &t3, s)));
                }
            }
        }
    }

    fn shrink(&self, c: &Case) -> Vec<Case> {
        let mut out = vec![];
        if let Kind::Exchange { peer, msg_type, bytes_hex, frag } = &c.kind {
            if !frag.is_empty() {
                out.push(Case { kind: Kind::Exchange { peer: *peer, msg_type: msg_type.clone(), bytes_hex: bytes_hex.clone(), frag: vec![] }, ..c.clone() });
            }
            let e = env();
            let s = schema_of(e, *peer);
            if let Ok(mut t) = pbwire::decode(s, msg_type, &unhex(bytes_hex)) {
                t.normalize(s);
                let canon = pbwire::encode(s, &t, &EncOpts::canonical());
                if hex(&canon) != *bytes_hex {
                    out.push(Case { kind: Kind::Exchange { peer: *peer, msg_type: msg_type.clone(), bytes_hex: hex(&canon), frag: frag.clone() }, ..c.clone() });
                }
                for cand in drop_one(&t) {
                    out.push(Case { kind: Kind::Exchange { peer: *peer, msg_type: msg_type.clone(), bytes_hex: hex(&pbwire::encode(s, &cand, &EncOpts::canonical())), frag: frag.clone() }, ..c.clone() });
                }
            }
        }
        out
    }

    fn post_check(&self, counters: &BTreeMap<String, u64>, _tier: Tier) -> Vec<String> {
        // every #[prost] tag of every Rust message must have carried a non-default value in some exchange
        let mut blind = vec![];
        for it in RUST_ITEMS.iter().filter(|i| i.kind == "message") {
            for f in it.fields {
                let a = parse_attr(f.attr);
                if a.oneof.is_some() {
                    for t in &a.tags {
                        if !counters.contains_key(&format!("cov.{}#{}", norm(it.proto_name), t)) {
                            blind.push(format!("never populated: {}#{} (oneof {})", it.proto_name, t, f.name));
                        }
                    }
                } else if let Some(t) = a.tags.first() {
                    if !counters.contains_key(&format!("cov.{}#{}", norm(it.proto_name), t)) {
                        blind.push(format!("never populated: {}#{} ({})", it.proto_name, t, f.name));
                    }
                }
            }
        }
        blind
    }

    fn rule(&self) -> String {
        "one run = one exchange: a seeded value tree for one message type (every field set/unset, nesting depth <=3, maps, each oneof arm and none, each enum value and an unknown number, per-field sentinel values) is encoded by the schema peer or the Python-descriptor peer with seeded legal freedom (field order, packed/unpacked/split-packed repeated scalars, map entry order and entry field order, implicit defaults written, unknown fields of every wire type, non-minimal varints), cut into seeded fragments (bytes::Buf chain), decoded and re-encoded by the real prost bindings (hash-map order seeded), and decoded again by the peer; plus decode(encode(m)) == m. Enumerated cases: the static table of every #[prost] attribute and enum value against both descriptor sets (and the two descriptor sets against each other); the legacy artifact; N loops text -> protoc --encode -> Rust -> protoc --decode -> protoc --encode -> peer. distinct = distinct event-log hash (case digest + API results); non-trivial = more than 2 bytes on the wire".into()
    }
    fn assumptions(&self) -> Vec<String> {
        vec![
            "no Python protobuf runtime is installed: the Python side is represented by the descriptors embedded in python/ommx/ommx/v1/*_pb2.py, which determine its wire behaviour".into(),
            "NaN payloads are not generated (values are compared); -0.0 and 0.0 are the same value (prost drops a -0.0 in an implicit-presence field as the default)".into(),
            "field *names* are not compared (they do not appear on the wire)".into(),
            "'the published schema' is the descriptor set of the pinned release, committed as /verif/golden/ommx_v1.descriptor_set.bin; the working tree may add to it but must keep every published field number, type, label and enum value".into(),
            "group wire types are not generated".into(),
        ]
    }
    fn real_components(&self) -> Vec<&'static str> {
        vec!["prost-generated bindings rust/ommx/src/ommx.v1.rs (decode, encode, PartialEq)", "protoc / libprotobuf 3.21 (descriptor sets, --encode, --decode)", "proto/ommx/v1/*.proto and python/ommx/ommx/v1/*_pb2.py of the working tree", "data/random_lp_instance.ommx"]
    }
    fn stub_components(&self) -> Vec<&'static str> {
        vec!["the remote producer/consumer (schema-driven peer codec in sim/src/model/pbwire.rs)", "the Python protobuf runtime (descriptor-driven peer)", "the channel (fragmented buffer)"]
    }
    fn required_probes(&self, _t: Tier) -> Vec<&'static str> {
        vec!["probe.static_table_compared", "probe.legacy_artifact", "probe.protoc_loop", "probe.exchange.python_peer", "probe.exchange.schema_peer", "probe.exchange.published_schema_peer", "probe.fragmented_buffer"]
    }
}

fn drop_one(t: &MsgVal) -> Vec<MsgVal> {
    let mut out = vec![];
    for k in t.fields.keys() {
        let mut n = t.clone();
        n.fields.remove(k);
        out.push(n);
    }
    for (k, fv) in &t.fields {
        match fv {
            FVal::One(Val::Msg(sub)) => {
                for s2 in drop_one(sub) {
                    let mut n = t.clone();
                    n.fields.insert(*k, FVal::One(Val::Msg(s2)));
                    out.push(n);
                }
            }
            FVal::Many(vs) if vs.len() > 1 => {
                let mut n = t.clone();
                n.fields.insert(*k, FVal::Many(vs[..1].to_vec()));
                out.push(n);
            }
            FVal::Map(es) if es.len() > 1 => {
                let mut n = t.clone();
                n.fields.insert(*k, FVal::Map(es[..1].to_vec()));
                out.push(n);
            }
            _ => {}
        }
    }
    out
}

fn first_diff(a: &MsgVal, b: &MsgVal, s: &Schema) -> String {
    let name = |ty: &str, n: u32| s.messages.get(ty).and_then(|d| d.fields.iter().find(|f| f.number == n)).map(|f| f.name.clone()).unwrap_or_else(|| n.to_string());
    for (k, va) in &a.fields {
        match b.fields.get(k) {
            None => return format!("{}.{}: sent {:?}, not received", a.ty, name(&a.ty, *k), short(va)),
            Some(vb) if va != vb => {
                if let (FVal::One(Val::Msg(x)), FVal::One(Val::Msg(y))) = (va, vb) {
                    return format!("{}.{} -> {}", a.ty, name(&a.ty, *k), first_diff(x, y, s));
                }
                if let (FVal::Many(xs), FVal::Many(ys)) = (va, vb) {
                    if xs.len() != ys.len() {
                        return format!("{}.{}: sent {} elements, received {}", a.ty, name(&a.ty, *k), xs.len(), ys.len());
                    }
                    for (i, (x, y)) in xs.iter().zip(ys).enumerate() {
                        if x != y {
                            if let (Val::Msg(x), Val::Msg(y)) = (x, y) {
                                return format!("{}.{}[{}] -> {}", a.ty, name(&a.ty, *k), i, first_diff(x, y, s));
                            }
                            return format!("{}.{}[{}]: sent {:?} received {:?}", a.ty, name(&a.ty, *k), i, x, y);
                        }
                    }
                }
                if let (FVal::Map(xs), FVal::Map(ys)) = (va, vb) {
                    for (x, y) in xs.iter().zip(ys) {
                        if x != y {
                            if let (Val::Msg(mx), Val::Msg(my)) = (&x.1, &y.1) {
                                if x.0 == y.0 {
                                    return format!("{}.{}[{:?}] -> {}", a.ty, name(&a.ty, *k), x.0, first_diff(mx, my, s));
                                }
                            }
                            return format!("{}.{}: sent entry {:?} received {:?}", a.ty, name(&a.ty, *k), x, y);
                        }
                    }
                    if xs.len() != ys.len() {
                        return format!("{}.{}: sent {} entries, received {}", a.ty, name(&a.ty, *k), xs.len(), ys.len());
                    }
                }
                return format!("{}.{}: sent {} received {}", a.ty, name(&a.ty, *k), short(va), short(vb));
            }
            _ => {}
        }
    }
    for (k, vb) in &b.fields {
        if !a.fields.contains_key(k) {
            return format!("{}.{}: received {} which was not sent", a.ty, name(&a.ty, *k), short(vb));
        }
    }
    "(no difference found)".into()
}
fn short(v: &FVal) -> String {
    let s = format!("{:?}", v);
    if s.len() > 200 {
        let mut cut = 200;
        while !s.is_char_boundary(cut) {
            cut -= 1;
        }
        format!("{}...", &s[..cut])
    } else {
        s
    }
}
