//! C04 — substitution is composition; dependent variables are recovered under every iteration order of the
//! dependency map; cyclic / undefined dependency graphs fail cleanly (no hang: run watchdog).

use crate::model::exact::{self, assign_of, diff_solution, factorial, gen_func, gen_instance, gen_state, gen_value, nth_permutation, ref_evaluate, v1_state, FuncSpec, GenOpts, InstSpec, VarSpec};
use crate::model::lp::F;
use crate::model::poly::{fx, fx_f64, Poly};
use crate::rng::Rng;
use crate::runner::{Exec, Prop, SimParams, Tier};
use ommx::v1;
use ommx::Evaluate;
use serde::{Deserialize, Serialize};
use std::collections::{BTreeMap, BTreeSet, HashMap};

#[derive(Clone, Debug, Serialize, Deserialize)]
pub enum Scenario {
    /// Function::substitute with a simultaneous replacement map (replacements may mention replaced variables)
    FuncSubst { f: FuncSpec, repl: Vec<(u64, FuncSpec)>, points: Vec<Vec<(u64, F)>> },
    /// 1..3 successive Instance::substitute calls (replacements over the remaining variables), then evaluate
    /// `pre_fix`: variables fixed by Instance::partial_evaluate before the first substitution (the final state
    /// does not contain them)
    InstSubst { inst: InstSpec, calls: Vec<Vec<(u64, FuncSpec)>>, state: Vec<(u64, F)>, dep_order: Option<Vec<u64>>, #[serde(default)] pre_fix: Vec<(u64, F)> },
    /// dependency map as it may arrive from the wire (chains, trees, diamonds, cycles, undefined references),
    /// evaluated under a forced iteration order, through evaluate or evaluate_samples
    DepGraph { inst: InstSpec, order: Option<Vec<u64>>, state: Vec<(u64, F)>, via_samples: bool },
    /// log_encode + substitute + evaluate (the QUBO-driver path)
    LogEncode { inst: InstSpec, var: u64, bits: Vec<u8>, state: Vec<(u64, F)> },
}
#[derive(Clone, Debug, Serialize, Deserialize)]
pub struct Case {
    pub sc: Scenario,
    pub hash_seed: u64,
}

#[derive(Clone, Copy)]
pub struct C04;

/// a replacement function of degree <= 2; a Function message whose oneof is unset is not generated as a
/// replacement (the statement speaks of substituting functions; arithmetic on an unset oneof is C02's subject)
fn gen_repl(rng: &mut Rng, ids: &[u64]) -> FuncSpec {
    loop {
        let f = gen_func(rng, ids, 2);
        if f != FuncSpec::Unset {
            return f;
        }
    }
}

/// C04 builds its own "previously fixed variable" variants; the shared generator's one is removed
fn gen_inst(rng: &mut Rng, o: &GenOpts) -> InstSpec {
    let mut i = gen_instance(rng, o);
    i.vars.retain(|v| v.substituted.is_none());
    i
}

fn repl_map(repl: &[(u64, FuncSpec)]) -> HashMap<u64, v1::Function> {
    let mut m = HashMap::new();
    for (k, f) in repl {
        m.insert(*k, f.to_v1());
    }
    m
}
fn repl_polys(repl: &[(u64, FuncSpec)]) -> BTreeMap<u64, Poly> {
    repl.iter().map(|(k, f)| (*k, f.poly())).collect()
}

fn apply_order(inst: &mut v1::Instance, order: &Option<Vec<u64>>, x: &mut Exec) {
    if let Some(o) = order {
        // an order of more than seven keys cannot be forced by searching hash seeds (8! tries and more): such maps
        // keep the order their hash seed gives them
        if o.len() > 7 {
            x.count("probe.dependency_map_too_large_to_force");
            return;
        }
        // every replaced variable must have been recorded as a dependency by now
        if let Some(k) = o.iter().find(|k| !inst.decision_variable_dependency.contains_key(k)) {
            x.violate("C04:instance:dependency-not-recorded", format!("after the substitutions the instance has no dependency entry for the replaced variable {k} (entries: {:?})", { let mut v: Vec<&u64> = inst.decision_variable_dependency.keys().collect(); v.sort(); v }));
            return;
        }
        let entries: Vec<(u64, v1::Function)> = o.iter().map(|k| (*k, inst.decision_variable_dependency[k].clone())).collect();
        let (m, tries) = exact::force_order(&entries, o);
        inst.decision_variable_dependency = m;
        x.add("probe.map_order_rebuilds", tries);
        x.count("probe.forced_dependency_order");
    }
}

/// a dependency graph on the variables of `vars`: returns (deps, kind) where kind says whether it is evaluable
fn gen_graph(rng: &mut Rng, ids: &[u64], shape: u64) -> Vec<(u64, FuncSpec)> {
    // ids[0..k] are dependent, the rest independent
    let n = ids.len();
    let k = (1 + rng.usize(n.min(5))).min(n);
    let dep: Vec<u64> = ids[..k].to_vec();
    let indep: Vec<u64> = ids[k..].to_vec();
    let lin = |rng: &mut Rng, on: &[u64]| -> FuncSpec {
        if on.is_empty() {
            return FuncSpec::Constant(F(rng.half(2, false)));
        }
        let terms: Vec<(u64, F)> = on.iter().map(|i| (*i, F(*rng.pick(&[1.0, -1.0, 0.5, 2.0])))).collect();
        if rng.chance(1, 4) && on.len() == 2 {
            FuncSpec::Quadratic { entries: vec![(on[0], on[1], F(1.0))], linear: Some((vec![], F(0.5))) }
        } else {
            FuncSpec::Linear { terms, constant: F(rng.half(1, false)) }
        }
    };
    let mut deps: Vec<(u64, FuncSpec)> = vec![];
    match shape {
        // chain: d0 <- d1 <- ... <- d(k-1) <- independent
        0 => {
            for i in 0..k {
                let on: Vec<u64> = if i + 1 < k { vec![dep[i + 1]] } else { indep.iter().take(1).copied().collect() };
                deps.push((dep[i], lin(rng, &on)));
            }
        }
        // tree / diamond: every dependent variable refers to later dependents and independents
        1 => {
            for i in 0..k {
                let mut on: Vec<u64> = vec![];
                for j in i + 1..k {
                    if rng.chance(1, 2) {
                        on.push(dep[j]);
                    }
                }
                for v in &indep {
                    if rng.chance(1, 3) {
                        on.push(*v);
                    }
                }
                on.truncate(2);
                deps.push((dep[i], lin(rng, &on)));
            }
        }
        // flat: only independents
        2 => {
            for d in &dep {
                let on: Vec<u64> = indep.iter().filter(|_| rng.chance(1, 2)).take(2).copied().collect();
                deps.push((*d, lin(rng, &on)));
            }
        }
        // cycle somewhere (possibly next to an evaluable part)
        3 => {
            for i in 0..k {
                let on = vec![dep[(i + 1) % k]];
                deps.push((dep[i], lin(rng, &on)));
            }
            if k >= 3 && rng.chance(1, 2) {
                // break out one variable so that part of the graph is evaluable
                deps[0].1 = lin(rng, &[]);
            }
            if k == 1 {
                deps[0].1 = FuncSpec::Linear { terms: vec![(dep[0], F(1.0))], constant: F(1.0) };
            }
        }
        // a reference to a variable that has no value (id 777 is defined nowhere in the state)
        _ => {
            for i in 0..k {
                let on: Vec<u64> = if i + 1 < k { vec![dep[i + 1]] } else { vec![777] };
                deps.push((dep[i], lin(rng, &on)));
            }
        }
    }
    rng.shuffle(&mut deps);
    deps
}

fn graph_case(rng: &mut Rng, five: bool) -> (InstSpec, Vec<(u64, F)>) {
    let mut inst = gen_inst(rng, &GenOpts { max_vars: 6, max_cons: 2, max_removed: 1, max_degree: 2, deps: false, hints: false });
    while inst.vars.len() < if five { 6 } else { 2 } {
        let id = 200 + inst.vars.len() as u64;
        inst.vars.push(VarSpec { id, kind: 3, bound: None, name: None, substituted: None, meta: None });
    }
    let ids: Vec<u64> = inst.vars.iter().map(|v| v.id).collect();
    let shape = rng.below(5);
    let mut deps = gen_graph(rng, &ids, shape);
    if five {
        // exactly five entries so that all 120 orders can be enumerated
        let mut tries = 0;
        while deps.len() != 5 && tries < 50 {
            deps = gen_graph(rng, &ids, shape);
            tries += 1;
        }
    }
    if shape == 4 {
        // 777 is a defined decision variable that is neither dependent nor given a value
        inst.vars.push(VarSpec { id: 777, kind: 3, bound: None, name: None, substituted: None, meta: None });
    }
    let dep_ids: BTreeSet<u64> = deps.iter().map(|d| d.0).collect();
    // objective and constraints must not use dependent variables (they are evaluated before the dependencies)
    let free: Vec<u64> = ids.iter().filter(|i| !dep_ids.contains(i)).copied().collect();
    inst.objective = Some(gen_func(rng, &free, 2));
    for c in &mut inst.constraints {
        c.function = Some(gen_func(rng, &free, 2));
    }
    for r in &mut inst.removed {
        if let Some(c) = &mut r.constraint {
            c.function = Some(gen_func(rng, &free, 2));
        }
    }
    // a dependency may also mention a variable that was fixed earlier: its value is recorded on the decision
    // variable (substituted_value) and it is not part of the state
    if !five && !deps.is_empty() && rng.chance(1, 4) {
        let val = F(rng.half(2, false));
        inst.vars.push(VarSpec { id: 300, kind: 3, bound: None, name: None, substituted: Some(val), meta: None });
        let k = rng.usize(deps.len());
        deps[k].1 = match deps[k].1.clone() {
            FuncSpec::Linear { mut terms, constant } => {
                terms.push((300, F(1.0)));
                FuncSpec::Linear { terms, constant }
            }
            FuncSpec::Constant(c) => FuncSpec::Linear { terms: vec![(300, F(1.0))], constant: c },
            FuncSpec::Quadratic { entries, linear } => {
                let (mut t, c) = linear.unwrap_or((vec![], F(0.0)));
                t.push((300, F(-1.0)));
                FuncSpec::Quadratic { entries, linear: Some((t, c)) }
            }
            other => other,
        };
    }
    inst.deps = deps;
    let state: Vec<(u64, F)> = inst.vars.iter().filter(|v| !dep_ids.contains(&v.id) && v.id != 777 && v.substituted.is_none()).map(|v| (v.id, gen_value(rng, v))).collect();
    (inst, state)
}

impl Prop for C04 {
    type Case = Case;
    fn id(&self) -> &'static str {
        "C04"
    }
    fn runs(&self, tier: Tier) -> u64 {
        match tier {
            Tier::Quick => 30_000,
            Tier::Thorough => 2_000_000,
        }
    }
    fn gen(&self, rng: &mut Rng, _tier: Tier, _idx: u64) -> Case {
        let hash_seed = rng.next();
        let sc = match rng.below(10) {
            0..=2 => {
                let ids: Vec<u64> = vec![1, 2, 3, 5, 8][..2 + rng.usize(4)].to_vec();
                let f = gen_func(rng, &ids, 3);
                let mut keys = ids.clone();
                rng.shuffle(&mut keys);
                keys.truncate(1 + rng.usize(keys.len().min(4)));
                // replacements may mention replaced variables: simultaneous semantics
                let repl: Vec<(u64, FuncSpec)> = keys.iter().map(|k| (*k, gen_repl(rng, &ids))).collect();
                let points = (0..2).map(|_| ids.iter().map(|i| (*i, F(rng.half(2, false)))).collect()).collect();
                Scenario::FuncSubst { f, repl, points }
            }
            3..=5 => {
                let inst = gen_inst(rng, &GenOpts { max_vars: 6, max_cons: 3, max_removed: 2, max_degree: 3, deps: true, hints: false });
                let dep_ids = inst.dep_ids();
                let mut remaining: Vec<u64> = inst.vars.iter().map(|v| v.id).filter(|i| !dep_ids.contains(i)).collect();
                rng.shuffle(&mut remaining);
                // a third of the histories start with a partial evaluation
                let mut pre_fix: Vec<(u64, F)> = vec![];
                if remaining.len() >= 3 && rng.chance(1, 3) {
                    let id = remaining[remaining.len() - 1];
                    let v = inst.vars.iter().find(|v| v.id == id).unwrap();
                    pre_fix.push((id, gen_value(rng, v)));
                }
                let fixed_ids: Vec<u64> = pre_fix.iter().map(|p| p.0).collect();
                let ncalls = 1 + rng.usize(3);
                let mut calls = vec![];
                for _ in 0..ncalls {
                    if remaining.len() - fixed_ids.len() < 2 {
                        break;
                    }
                    // replaced variables are taken from the front; fixed ones sit at the back and are never replaced
                    let k = 1 + rng.usize((remaining.len() - fixed_ids.len() - 1).min(4));
                    let keys: Vec<u64> = remaining.drain(..k).collect();
                    // replacements mention remaining variables only (a fixed variable is no longer one of them)
                    let mentionable: Vec<u64> = remaining.iter().filter(|i| !fixed_ids.contains(i)).copied().collect();
                    let call: Vec<(u64, FuncSpec)> = keys.iter().map(|key| (*key, gen_repl(rng, &mentionable))).collect();
                    calls.push(call);
                }
                let state: Vec<(u64, F)> = inst.vars.iter().filter(|v| remaining.contains(&v.id) && !fixed_ids.contains(&v.id)).map(|v| (v.id, gen_value(rng, v))).collect();
                let mut all_deps: Vec<u64> = inst.deps.iter().map(|d| d.0).collect();
                all_deps.extend(calls.iter().flatten().map(|c| c.0));
                let dep_order = if all_deps.len() >= 2 && rng.chance(1, 2) {
                    rng.shuffle(&mut all_deps);
                    Some(all_deps)
                } else {
                    None
                };
                Scenario::InstSubst { inst, calls, state, dep_order, pre_fix }
            }
            6..=8 => {
                let (inst, state) = graph_case(rng, false);
                let order = if inst.deps.len() >= 2 && rng.chance(2, 3) {
                    let mut o: Vec<u64> = inst.deps.iter().map(|d| d.0).collect();
                    rng.shuffle(&mut o);
                    Some(o)
                } else {
                    None
                };
                Scenario::DepGraph { inst, order, state, via_samples: rng.chance(1, 4) }
            }
            _ => {
                let mut inst = gen_inst(rng, &GenOpts { max_vars: 4, max_cons: 2, max_removed: 1, max_degree: 2, deps: false, hints: false });
                // log_encode allocates fresh IDs above the largest defined one, which cannot work when that is
                // u64::MAX (ID allocation is C12's subject, not claimed): such instances are not used here
                while inst.vars.iter().any(|v| v.id == u64::MAX) {
                    inst = gen_inst(rng, &GenOpts { max_vars: 4, max_cons: 2, max_removed: 1, max_degree: 2, deps: false, hints: false });
                }
                // make the first variable an integer with a finite range
                let lo = rng.range(-3, 2) as f64 + if rng.chance(1, 4) { 0.5 } else { 0.0 };
                let hi = lo.ceil() + rng.range(0, 9) as f64 + if rng.chance(1, 4) { 0.5 } else { 0.0 };
                inst.vars[0].kind = 2;
                inst.vars[0].bound = Some((F(lo), F(hi)));
                let var = inst.vars[0].id;
                let state: Vec<(u64, F)> = inst.vars.iter().skip(1).map(|v| (v.id, gen_value(rng, v))).collect();
                let bits = (0..8).map(|_| rng.below(2) as u8).collect();
                Scenario::LogEncode { inst, var, bits, state }
            }
        };
        Case { sc, hash_seed }
    }

    fn enum_plan(&self, tier: Tier, seed: u64) -> Vec<(u64, u64)> {
        // every iteration order (5! = 120) of the dependency map of N five-entry graphs
        let n = match tier {
            Tier::Quick => 20,
            Tier::Thorough => 5000,
        };
        (0..n).map(|i| (120, crate::rng::mix(&[seed, 0xC04, i]))).collect()
    }
    fn enum_case(&self, gs: u64, k: u64) -> Case {
        let mut rng = Rng::new(gs);
        let (inst, state) = graph_case(&mut rng, true);
        let mut keys: Vec<u64> = inst.deps.iter().map(|d| d.0).collect();
        keys.sort();
        let order = if keys.len() == 5 { Some(nth_permutation(&keys, k % factorial(keys.len()))) } else { Some(nth_permutation(&keys, k % factorial(keys.len()).max(1))) };
        Case { sc: Scenario::DepGraph { inst, order, state, via_samples: k % 7 == 3 }, hash_seed: gs ^ k }
    }

    fn sibling(&self, c: &Case) -> Option<Case> {
        // every sixth case is preceded, in the same run, by another case of the property (generated from its hash seed)
        if c.hash_seed % 6 != 4 {
            return None;
        }
        if c.hash_seed % 12 == 4 {
            // a close relative of a dependency-graph case: the same dependent variables, wired the other way round
            if let Scenario::DepGraph { inst, state, via_samples, .. } = &c.sc {
                let keys: Vec<u64> = inst.deps.iter().map(|d| d.0).collect();
                if keys.len() >= 2 {
                    let mut rel = inst.clone();
                    let rev: Vec<u64> = keys.iter().rev().copied().collect();
                    let indep = inst.vars.iter().map(|v| v.id).find(|i| !keys.contains(i) && *i != 777);
                    rel.deps = (0..rev.len())
                        .map(|i| {
                            let on = if i + 1 < rev.len() { Some(rev[i + 1]) } else { indep };
                            let f = match on {
                                Some(v) => FuncSpec::Linear { terms: vec![(v, F(1.0))], constant: F(0.5) },
                                None => FuncSpec::Constant(F(1.0)),
                            };
                            (rev[i], f)
                        })
                        .collect();
                    return Some(Case { sc: Scenario::DepGraph { inst: rel, order: None, state: state.clone(), via_samples: *via_samples }, hash_seed: c.hash_seed ^ 1 });
                }
            }
        }
        Some(self.gen(&mut Rng::new(c.hash_seed ^ 0x51B1_1B15), Tier::Quick, 0))
    }

    fn sim_params(&self, c: &Case) -> SimParams {
        SimParams { hash_seed: c.hash_seed, ..Default::default() }
    }

    fn exec(&self, case: &Case, x: &mut Exec) {
        x.begin_op(0);
        match &case.sc {
            Scenario::FuncSubst { f, repl, points } => {
                x.nontrivial = !repl.is_empty() && f.id_positions() > 0;
                x.count("probe.scenario.function_substitute");
                let fv = f.to_v1();
                let map = repl_map(repl);
                let g = match x.sut(|| fv.substitute(&map)) {
                    Err(p) => return x.violate("C04:panic", format!("Function::substitute panicked: {p}")),
                    Ok(Err(e)) => return x.violate("C04:function:substitute-fails", format!("{e:#}")),
                    Ok(Ok(g)) => g,
                };
                let want = f.poly().substitute(&repl_polys(repl)).expect("reference model");
                match Poly::from_function(Some(&g)) {
                    Err(e) => x.violate("C04:function:coefficients", format!("result has a coefficient the inputs cannot produce: {e}")),
                    Ok(pg) => {
                        x.api("substitute", &pg.show());
                        if pg != want {
                            x.violate("C04:function:coefficients", format!("f=[{}] with {:?}: expected [{}] got [{}]", f.poly().show(), repl.iter().map(|(k, r)| format!("x{}:=[{}]", k, r.poly().show())).collect::<Vec<_>>(), want.show(), pg.show()));
                        }
                    }
                }
                // and by value: g(a) == f(a with each replaced variable set to its replacement's value at a)
                for pt in points {
                    let a = assign_of(pt);
                    let mut a2 = a.clone();
                    let mut ok = true;
                    for (k, r) in repl {
                        match r.poly().eval(&a).expect("reference model") {
                            Ok(v) => {
                                a2.insert(*k, v);
                            }
                            Err(_) => ok = false,
                        }
                    }
                    if !ok {
                        continue;
                    }
                    if let Ok(w) = f.poly().eval(&a2).expect("reference model") {
                        match x.sut(|| g.evaluate(&v1_state(pt))) {
                            Ok(Ok((v, _))) => {
                                if v != fx_f64(w).expect("reference model") {
                                    x.violate("C04:function:value", format!("substituted function evaluates to {v}, composition gives {}", fx_f64(w).unwrap()));
                                }
                            }
                            Ok(Err(e)) => x.violate("C04:function:evaluate-fails", format!("{e:#}")),
                            Err(p) => x.violate("C04:panic", p),
                        }
                    }
                }
            }
            Scenario::InstSubst { inst, calls, state, dep_order, pre_fix } => {
                x.nontrivial = !calls.is_empty();
                x.count("probe.scenario.instance_substitute");
                if calls.len() >= 2 {
                    x.count("probe.successive_substitutions");
                }
                let original = inst.to_v1();
                let mut cur = original.clone();
                if !pre_fix.is_empty() {
                    x.count("probe.partial_evaluate_before_substitute");
                    match x.sut(|| cur.partial_evaluate(&v1_state(pre_fix))) {
                        Err(p) => return x.violate("C04:panic", format!("partial_evaluate panicked: {p}")),
                        Ok(Err(e)) => return x.violate("C04:instance:partial-evaluate-fails", format!("{e:#}")),
                        Ok(Ok(_)) => {}
                    }
                }
                for (ci, call) in calls.iter().enumerate() {
                    let before = cur.clone();
                    match x.sut(|| cur.substitute(repl_map(call))) {
                        Err(p) => return x.violate("C04:panic", format!("Instance::substitute panicked: {p}")),
                        Ok(Err(e)) => return x.violate("C04:instance:substitute-fails", format!("call {ci}: {e:#}")),
                        Ok(Ok(())) => {}
                    }
                    for part_name in exact::untouched_diff(&before, &cur, true, false) {
                        x.violate("C04:instance:untouched-part-changed", format!("call {ci}: substitute changed the instance's {part_name}"));
                    }
                    // constraints keep their identity and metadata
                    for b in before.constraints.iter() {
                        let Some(a) = cur.constraints.iter().find(|a| a.id == b.id) else { continue };
                        let mut b2 = b.clone();
                        b2.function = a.function.clone();
                        if &b2 != a {
                            x.violate("C04:instance:untouched-part-changed", format!("call {ci}: substitute changed constraint {} beyond its function", b.id));
                        }
                    }
                    if before.constraints.len() != cur.constraints.len() || before.removed_constraints.len() != cur.removed_constraints.len() {
                        x.violate("C04:instance:untouched-part-changed", format!("call {ci}: substitute changed the number of constraints"));
                    }
                    // no function of the instance mentions a replaced variable any more
                    let replaced: BTreeSet<u64> = calls[..=ci].iter().flatten().map(|c| c.0).collect();
                    for (label, f) in exact::functions_of(&cur) {
                        if label.starts_with("dependency") {
                            continue;
                        }
                        if let Ok(p) = Poly::from_function(f.as_ref()) {
                            if let Some(id) = p.vars().intersection(&replaced).next() {
                                x.violate("C04:instance:still-mentions-replaced", format!("call {ci}: {label} still depends on the replaced variable {id}"));
                            }
                        }
                    }
                }
                apply_order(&mut cur, dep_order, x);
                // reference: values of the replaced variables through the chain, then the original at the full assignment
                let mut full = assign_of(state);
                full.extend(assign_of(pre_fix));
                for call in calls.iter().rev() {
                    let snapshot = full.clone();
                    for (k, r) in call {
                        match r.poly().eval(&snapshot).expect("reference model") {
                            Ok(v) => {
                                full.insert(*k, v);
                            }
                            Err(id) => panic!("generator: replacement mentions {id} which has no value"),
                        }
                    }
                }
                let reference = ref_evaluate(&original, &full).expect("reference model");
                match x.sut(|| cur.evaluate(&v1_state(state))) {
                    Err(p) => x.violate("C04:panic", format!("evaluate after substitute panicked: {p}")),
                    Ok(Err(e)) => x.violate("C04:instance:evaluate-fails", format!("evaluate after substitute fails: {e:#}")),
                    Ok(Ok((sol, _))) => {
                        x.api("evaluate", &format!("objective={} feasible={}", sol.objective, sol.feasible));
                        for (class, detail) in diff_solution(&reference, &sol).expect("reference model") {
                            x.violate(&format!("C04:instance:solution:{class}"), detail);
                        }
                    }
                }
            }
            Scenario::DepGraph { inst, order, state, via_samples } => {
                x.nontrivial = inst.deps.len() >= 2;
                x.count("probe.scenario.dependency_graph");
                let mut cur = inst.to_v1();
                apply_order(&mut cur, order, x);
                let reference = ref_evaluate(&cur, &assign_of(state));
                x.count(if reference.is_ok() { "probe.graph_evaluable" } else { "probe.graph_cyclic_or_undefined" });
                if inst.vars.iter().any(|v| v.substituted.is_some()) {
                    x.count("probe.dependency_on_recorded_value");
                }
                // evaluate_samples does not look at values recorded on decision variables (that belongs to C06, which
                // is not claimed): the recorded-value variant is judged through evaluate only
                if *via_samples && inst.vars.iter().all(|v| v.substituted.is_none()) {
                    x.count("probe.via_evaluate_samples");
                    let mut samples = v1::Samples::default();
                    let mut e = v1::samples::SamplesEntry::default();
                    e.state = Some(v1_state(state));
                    // several sample IDs share the state, in any order (IDs are labels, not positions)
                    e.ids = match case.hash_seed % 4 {
                        0 => vec![4, 9],
                        1 => vec![9, 4],
                        2 => vec![u64::MAX, 4, 0],
                        _ => vec![7, 4, 5, 6],
                    };
                    let sample_ids = e.ids.clone();
                    samples.entries.push(e);
                    match (x.sut(|| cur.evaluate_samples(&samples)), &reference) {
                        (Err(p), _) => x.violate("C04:panic", format!("evaluate_samples panicked: {p}")),
                        (Ok(Err(_)), Err(_)) => x.api("evaluate_samples", "Err"),
                        (Ok(Err(e)), Ok(_)) => x.violate("C04:dependencies:evaluable-graph-rejected", format!("order {:?}: evaluate_samples fails: {e:#}", order)),
                        (Ok(Ok(_)), Err(e)) => x.violate("C04:dependencies:bad-graph-accepted", format!("order {:?}: evaluate_samples returned Ok although {e}", order)),
                        (Ok(Ok((ss, _))), Ok(r)) => {
                            x.api("evaluate_samples", "Ok");
                            for (k, _) in &inst.deps {
                                let want = fx_f64(r.state[k]).expect("reference model");
                                let got = ss.decision_variables.iter().find(|d| d.decision_variable.as_ref().map(|v| v.id) == Some(*k)).and_then(|d| d.samples.as_ref()).and_then(|sv| sv.entries.iter().find(|e| e.ids.contains(&4)).map(|e| e.value));
                                if got != Some(want) {
                                    x.violate("C04:dependencies:wrong-value", format!("order {:?}: dependent variable {k} in the sample set: expected {want} got {:?}", order, got));
                                }
                            }
                            // the same report read sample by sample
                            for sid in &sample_ids {
                                match x.sut(|| ss.get(*sid)) {
                                    Err(p) => x.violate("C04:panic", format!("SampleSet::get panicked: {p}")),
                                    Ok(Err(e)) => x.violate("C04:dependencies:sample-unreadable", format!("order {:?}: sample {sid} of {:?} cannot be read back from the evaluated sample set: {e:#}", order, sample_ids)),
                                    Ok(Ok(sol)) => {
                                        for (k, _) in &inst.deps {
                                            let want = fx_f64(r.state[k]).expect("reference model");
                                            let got = sol.state.as_ref().and_then(|s| s.entries.get(k)).copied();
                                            if got != Some(want) {
                                                x.violate("C04:dependencies:wrong-value", format!("order {:?}: dependent variable {k} of sample {sid}: expected {want} got {:?}", order, got));
                                            }
                                        }
                                    }
                                }
                            }
                        }
                    }
                    return;
                }
                match (x.sut(|| cur.evaluate(&v1_state(state))), &reference) {
                    (Err(p), _) => x.violate("C04:panic", format!("evaluate panicked: {p}")),
                    (Ok(Err(_)), Err(_)) => x.api("evaluate", "Err"),
                    (Ok(Err(e)), Ok(_)) => x.violate("C04:dependencies:evaluable-graph-rejected", format!("order {:?}: evaluate fails on an acyclic, fully defined dependency graph: {e:#}", order)),
                    (Ok(Ok(_)), Err(e)) => x.violate("C04:dependencies:bad-graph-accepted", format!("order {:?}: evaluate returned a Solution although {e}", order)),
                    (Ok(Ok((sol, _))), Ok(r)) => {
                        x.api("evaluate", &format!("objective={}", sol.objective));
                        for (class, detail) in diff_solution(r, &sol).expect("reference model") {
                            x.violate(&format!("C04:dependencies:solution:{class}"), format!("order {:?}: {detail}", order));
                        }
                    }
                }
            }
            Scenario::LogEncode { inst, var, bits, state } => {
                x.nontrivial = true;
                x.count("probe.scenario.log_encode");
                let original = inst.to_v1();
                let mut cur = original.clone();
                let lin = match x.sut(|| cur.log_encode(*var)) {
                    Err(p) => return x.violate("C04:panic", format!("log_encode panicked: {p}")),
                    Ok(Err(e)) => return x.violate("C04:log-encode:fails", format!("log_encode of an integer with a finite range fails: {e:#}")),
                    Ok(Ok(l)) => l,
                };
                let mut lf = v1::Function::default();
                lf.function = Some(v1::function::Function::Linear(lin.clone()));
                let mut m = HashMap::new();
                m.insert(*var, lf);
                match x.sut(|| cur.substitute(m)) {
                    Err(p) => return x.violate("C04:panic", format!("substitute panicked: {p}")),
                    Ok(Err(e)) => return x.violate("C04:instance:substitute-fails", format!("{e:#}")),
                    Ok(Ok(())) => {}
                }
                // state: the other variables plus the new binaries
                let mut st = state.clone();
                let mut xval = fx(lin.constant).expect("dyadic");
                for (i, t) in lin.terms.iter().enumerate() {
                    let b = bits[i % bits.len()] as f64;
                    st.push((t.id, F(b)));
                    xval += fx(t.coefficient * b).expect("dyadic");
                }
                let mut full = assign_of(state);
                full.insert(*var, xval);
                // the encoded value may legitimately leave [l,u] only if log_encode is wrong (C12); here we only
                // compare with the original evaluated at that value
                let reference = ref_evaluate(&original, &full).expect("reference model");
                match x.sut(|| cur.evaluate(&v1_state(&st))) {
                    Err(p) => x.violate("C04:panic", format!("evaluate panicked: {p}")),
                    Ok(Err(e)) => x.violate("C04:instance:evaluate-fails", format!("encode, substitute, evaluate: {e:#}")),
                    Ok(Ok((sol, _))) => {
                        x.api("evaluate", &format!("objective={} x={}", sol.objective, fx_f64(xval).unwrap()));
                        let mut r = reference.clone();
                        for (k, v) in &st {
                            r.state.entry(*k).or_insert(fx(v.0).unwrap());
                        }
                        for (class, detail) in diff_solution(&r, &sol).expect("reference model") {
                            x.violate(&format!("C04:log-encode:solution:{class}"), detail);
                        }
                    }
                }
            }
        }
    }

    fn shrink(&self, c: &Case) -> Vec<Case> {
        let mut out = vec![];
        match &c.sc {
            Scenario::FuncSubst { f, repl, points } => {
                for i in 0..repl.len() {
                    let mut r = repl.clone();
                    r.remove(i);
                    out.push(Case { sc: Scenario::FuncSubst { f: f.clone(), repl: r, points: points.clone() }, ..c.clone() });
                }
                for i in 0..repl.len() {
                    if repl[i].1 != FuncSpec::Constant(F(1.0)) {
                        let mut r = repl.clone();
                        r[i].1 = FuncSpec::Constant(F(1.0));
                        out.push(Case { sc: Scenario::FuncSubst { f: f.clone(), repl: r, points: points.clone() }, ..c.clone() });
                    }
                }
                if points.len() > 1 {
                    out.push(Case { sc: Scenario::FuncSubst { f: f.clone(), repl: repl.clone(), points: points[..1].to_vec() }, ..c.clone() });
                }
            }
            Scenario::InstSubst { inst, calls, state, dep_order, pre_fix } => {
                if dep_order.is_some() {
                    out.push(Case { sc: Scenario::InstSubst { inst: inst.clone(), calls: calls.clone(), state: state.clone(), dep_order: None, pre_fix: pre_fix.clone() }, ..c.clone() });
                }
                for i in 0..inst.constraints.len() {
                    let mut n = inst.clone();
                    n.constraints.remove(i);
                    out.push(Case { sc: Scenario::InstSubst { inst: n, calls: calls.clone(), state: state.clone(), dep_order: dep_order.clone(), pre_fix: pre_fix.clone() }, ..c.clone() });
                }
                for i in 0..inst.removed.len() {
                    let mut n = inst.clone();
                    n.removed.remove(i);
                    out.push(Case { sc: Scenario::InstSubst { inst: n, calls: calls.clone(), state: state.clone(), dep_order: dep_order.clone(), pre_fix: pre_fix.clone() }, ..c.clone() });
                }
                for ci in 0..calls.len() {
                    for k in 0..calls[ci].len() {
                        if calls[ci][k].1 != FuncSpec::Constant(F(1.0)) {
                            let mut cs = calls.clone();
                            cs[ci][k].1 = FuncSpec::Constant(F(1.0));
                            out.push(Case { sc: Scenario::InstSubst { inst: inst.clone(), calls: cs, state: state.clone(), dep_order: dep_order.clone(), pre_fix: pre_fix.clone() }, ..c.clone() });
                        }
                    }
                }
            }
            Scenario::DepGraph { inst, order, state, via_samples } => {
                if order.is_some() && inst.deps.len() < 2 {
                    out.push(Case { sc: Scenario::DepGraph { inst: inst.clone(), order: None, state: state.clone(), via_samples: *via_samples }, ..c.clone() });
                }
                for i in 0..inst.constraints.len() {
                    let mut n = inst.clone();
                    n.constraints.remove(i);
                    out.push(Case { sc: Scenario::DepGraph { inst: n, order: order.clone(), state: state.clone(), via_samples: *via_samples }, ..c.clone() });
                }
                if *via_samples {
                    out.push(Case { sc: Scenario::DepGraph { inst: inst.clone(), order: order.clone(), state: state.clone(), via_samples: false }, ..c.clone() });
                }
            }
            Scenario::LogEncode { .. } => {}
        }
        out
    }

    fn rule(&self) -> String {
        "one run = one of four scenarios: (1) Function::substitute with a simultaneous replacement map of 1-4 entries of degree <=2 that may mention replaced variables, compared coefficient by coefficient with the composition and by value at sampled points; (2) 1-3 successive Instance::substitute calls over the remaining variables (pre-existing dependencies rewritten), forced order of the resulting dependency map, then evaluate compared with the exact reference evaluation of the original with replaced variables set through the chain; (3) a dependency map as it may arrive from the wire on <=5 dependent variables (chain, tree/diamond, flat, cycle, reference to a variable without value) under a forced iteration order, via evaluate or evaluate_samples: Ok with the reference values or Err, never a hang (run watchdog); (4) log_encode + substitute + evaluate. Enumerated part: all 120 iteration orders of N five-entry graphs. distinct = distinct event-log hash; non-trivial = >=2 dependency entries / non-empty replacement".into()
    }
    fn assumptions(&self) -> Vec<String> {
        vec![
            "coefficients and values are small dyadic rationals: comparisons are exact".into(),
            "objective and constraints do not use dependent variables (they are evaluated before the dependencies)".into(),
            "quadratic messages have no two entries at the same (row, column) location, as the schema requires; replacement functions have their oneof set".into(),
            format!("'no hang' is a wall-clock watchdog of {} s per run (normal: well under a millisecond)", crate::runner::WATCHDOG_SECS),
        ]
    }
    fn real_components(&self) -> Vec<&'static str> {
        vec!["Function::substitute", "Instance::substitute", "Instance::log_encode", "Instance::evaluate / evaluate_samples, eval_dependencies", "operator algebra used by substitute"]
    }
    fn stub_components(&self) -> Vec<&'static str> {
        vec!["OS randomness (seeded); iteration order of the dependency map forced explicitly by rebuilding the map"]
    }
    fn required_probes(&self, _t: Tier) -> Vec<&'static str> {
        vec!["probe.scenario.function_substitute", "probe.scenario.instance_substitute", "probe.scenario.dependency_graph", "probe.scenario.log_encode", "probe.successive_substitutions", "probe.partial_evaluate_before_substitute", "probe.dependency_on_recorded_value", "probe.forced_dependency_order", "probe.graph_evaluable", "probe.graph_cyclic_or_undefined", "probe.via_evaluate_samples"]
    }
}
