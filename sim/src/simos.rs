//! Simulated OS. The harness binary defines the libc entry points below itself; symbols defined in the
//! executable take precedence over glibc's for every caller in the process (Rust std, flate2, tar, ocipkg,
//! chrono, uuid), so on a simulation thread
//!   * `getrandom` replies come from the run's seed  -> the iteration order of every HashMap/HashSet is a
//!     pure function of the seed,
//!   * `clock_gettime(CLOCK_REALTIME)` reads the simulated wall clock,
//!   * `open/read/write/close` on files below the run's sim-disk directory go through the I/O scheduler,
//!     which decides short transfers, EINTR, EIO, ENOSPC and open failures from the recorded fault plan.
//! The actual system call is then made with `libc::syscall` on a real tmpfs directory: the disk is real, the
//! simulator only decides what the code under test sees. On any other thread (no context installed) and for
//! any descriptor outside the sim disk every call passes straight through.

use crate::rng::{splitmix, Fnv};
use libc::{c_char, c_int, c_uint, c_void, size_t, ssize_t};
use serde::{Deserialize, Serialize};
use std::cell::Cell;

#[derive(Clone, Copy, Debug, Serialize, Deserialize, PartialEq, Eq, Hash, PartialOrd, Ord)]
pub enum Dir {
    R,
    W,
    Open,
}

#[derive(Clone, Copy, Debug, Serialize, Deserialize, PartialEq, Eq)]
pub enum At {
    /// position (bytes already transferred by this operation on this role and direction)
    Byte(u64),
    /// index of the call (0-based, counting every call of this operation on this role and direction)
    Call(u64),
}

#[derive(Clone, Copy, Debug, Serialize, Deserialize, PartialEq, Eq)]
pub enum Act {
    /// this call transfers at most n bytes (one shot)
    Short(u32),
    /// this call fails with EINTR (one shot, transient)
    Eintr,
    /// hard I/O error from this point on (persistent)
    Eio,
    /// disk full from this byte on: a write crossing the budget is cut short, later writes fail (persistent)
    Enospc,
    /// open fails with this errno
    FailOpen(i32),
}

#[derive(Clone, Debug, Serialize, Deserialize, PartialEq, Eq)]
pub struct Fault {
    pub op: u32,
    pub role: String,
    pub dir: Dir,
    pub at: At,
    pub act: Act,
}

impl Fault {
    pub fn transient(&self) -> bool {
        matches!(self.act, Act::Short(_) | Act::Eintr)
    }
    pub fn kind(&self) -> &'static str {
        match (self.act, self.dir) {
            (Act::Short(_), Dir::R) => "short_read",
            (Act::Short(_), _) => "short_write",
            (Act::Eintr, Dir::R) => "eintr_read",
            (Act::Eintr, _) => "eintr_write",
            (Act::Eio, Dir::R) => "eio_read",
            (Act::Eio, _) => "eio_write",
            (Act::Enospc, _) => "enospc",
            (Act::FailOpen(_), _) => "open_fail",
        }
    }
}

/// How transfers are cut into pieces when no fault says otherwise.
#[derive(Clone, Debug, Serialize, Deserialize, PartialEq, Eq)]
pub enum Chunk {
    Whole,
    One,
    /// sizes drawn from a private stream in 1..=max
    Rand { max: u32, seed: u64 },
    /// explicit sizes, cycled (cut points chosen by the generator: line ends, inside tokens, gzip trailer ...)
    Cycle(Vec<u32>),
}

impl Chunk {
    pub fn is_whole(&self) -> bool {
        matches!(self, Chunk::Whole)
    }
}

struct Counter {
    role: u16,
    dir: Dir,
    calls: u64,
    bytes: u64,
    eintr_streak: u32,
    chunk_i: u64,
    chunk_state: u64,
}

#[derive(Clone, Copy, Debug)]
pub struct Ev {
    pub op: u32,
    pub role: u16,
    /// 'r','w','o' system calls; 'a' API result; 'i' invariant
    pub kind: u8,
    pub a: u64,
    pub b: i64,
}

pub const MAX_EINTR_STREAK: u32 = 3;
/// fault rule for "whatever operation is running": positions count over the whole run (a disk that fills up
/// after a total byte budget, whichever operation crosses it)
pub const ANY_OP: u32 = u32::MAX - 1;
pub const MAX_SYSCALLS: u64 = 3_000_000;

/// The I/O scheduler: the recorded fault plan applied to the calls an operation actually makes.
pub struct IoSched {
    /// no fault is injected and nothing is counted towards fault positions (a sibling case is being executed before
    /// the case proper, see Exec::prelude)
    pub quiet: bool,
    pub op: u32,
    pub faults: Vec<Fault>,
    pub fired: Vec<u32>,
    pub chunk_r: Chunk,
    pub chunk_w: Chunk,
    counters: Vec<Counter>,
    /// run-wide (role, dir, calls, bytes), never reset
    totals: Vec<(u16, Dir, u64, u64)>,
    /// (operation, fault index) pairs: which fault took effect in which operation
    fired_in: std::collections::BTreeSet<(u32, usize)>,
    pub roles: Vec<String>,
    pub events: Vec<Ev>,
    pub api_log: Vec<String>,
    pub n_calls: u64,
    /// fired fault kinds with the byte position they landed at, for reach statistics: (kind, op, pos)
    pub fired_at: Vec<(&'static str, u32, u64)>,
    pub overrun: bool,
}

impl IoSched {
    pub fn new(faults: Vec<Fault>, chunk_r: Chunk, chunk_w: Chunk) -> Self {
        let n = faults.len();
        IoSched {
            quiet: false,
            op: 0,
            faults,
            fired: vec![0; n],
            chunk_r,
            chunk_w,
            counters: Vec::new(),
            totals: Vec::new(),
            fired_in: Default::default(),
            roles: Vec::new(),
            events: Vec::new(),
            api_log: Vec::new(),
            n_calls: 0,
            fired_at: Vec::new(),
            overrun: false,
        }
    }
    pub fn begin_op(&mut self, op: u32) {
        self.op = op;
        self.counters.clear();
    }
    pub fn role_id(&mut self, role: &str) -> u16 {
        if let Some(i) = self.roles.iter().position(|r| r == role) {
            return i as u16;
        }
        self.roles.push(role.to_string());
        (self.roles.len() - 1) as u16
    }
    fn counter(&mut self, role: u16, dir: Dir) -> usize {
        if let Some(i) = self.counters.iter().position(|c| c.role == role && c.dir == dir) {
            return i;
        }
        let seed = match (dir, &self.chunk_r, &self.chunk_w) {
            (Dir::R, Chunk::Rand { seed, .. }, _) => *seed,
            (Dir::W, _, Chunk::Rand { seed, .. }) => *seed,
            _ => 0,
        };
        self.counters.push(Counter {
            role,
            dir,
            calls: 0,
            bytes: 0,
            eintr_streak: 0,
            chunk_i: 0,
            chunk_state: seed ^ ((role as u64) << 32) ^ self.op as u64,
        });
        self.counters.len() - 1
    }
    /// Bytes moved in this operation on the file of this name - or, when no such file was ever opened, on any file of
    /// the simulated disk (the code may have written to a temporary file that it renamed into place).
    pub fn bytes_so_far(&mut self, role: &str, dir: Dir) -> u64 {
        let direct: Vec<u16> = (0..self.roles.len() as u16).filter(|i| role_matches(&self.roles[*i as usize], role)).collect();
        let ids: Vec<u16> = if direct.is_empty() { (0..self.roles.len() as u16).collect() } else { direct };
        self.counters.iter().filter(|c| c.dir == dir && ids.contains(&c.role)).map(|c| c.bytes).sum()
    }

    /// Decide the fate of one transfer call that wants `want` bytes: Ok(n) = let it move at most n bytes,
    /// Err(errno) = fail it.
    pub fn decide(&mut self, role: u16, dir: Dir, want: usize) -> Result<usize, i32> {
        self.n_calls += 1;
        if self.n_calls > MAX_SYSCALLS {
            self.overrun = true;
        }
        if self.quiet {
            return Ok(want);
        }
        let ci = self.counter(role, dir);
        let (call_op, pos_op) = (self.counters[ci].calls, self.counters[ci].bytes);
        self.counters[ci].calls += 1;
        let ti = match self.totals.iter().position(|t| t.0 == role && t.1 == dir) {
            Some(i) => i,
            None => {
                self.totals.push((role, dir, 0, 0));
                self.totals.len() - 1
            }
        };
        let (call_tot, pos_tot) = (self.totals[ti].2, self.totals[ti].3);
        self.totals[ti].2 += 1;
        let mut allowed = want;
        let mut err: Option<i32> = None;
        let op = self.op;
        for i in 0..self.faults.len() {
            let f = &self.faults[i];
            if (f.op != op && f.op != ANY_OP) || f.dir != dir || !self.fault_applies(role, &self.faults[i]) {
                continue;
            }
            let (call, pos) = if f.op == ANY_OP { (call_tot, pos_tot) } else { (call_op, pos_op) };
            let kind = f.kind();
            match f.act {
                Act::Eio | Act::Enospc => {
                    let errno = if f.act == Act::Eio { libc::EIO } else { libc::ENOSPC };
                    match f.at {
                        At::Byte(k) => {
                            if pos >= k {
                                err = Some(errno);
                                if self.fired[i] == 0 {
                                    self.fired_at.push((kind, op, pos));
                                }
                                self.fired[i] += 1;
                                self.fired_in.insert((op, i));
                            } else {
                                allowed = allowed.min((k - pos) as usize);
                            }
                        }
                        At::Call(j) => {
                            if call >= j {
                                err = Some(errno);
                                if self.fired[i] == 0 {
                                    self.fired_at.push((kind, op, pos));
                                }
                                self.fired[i] += 1;
                                self.fired_in.insert((op, i));
                            }
                        }
                    }
                }
                Act::Eintr | Act::Short(_) => {
                    if self.fired[i] > 0 {
                        continue;
                    }
                    let hit = match f.at {
                        At::Byte(k) => pos >= k,
                        At::Call(j) => call == j,
                    };
                    if !hit {
                        continue;
                    }
                    if let Act::Short(n) = f.act {
                        self.fired[i] = 1;
                        self.fired_in.insert((op, i));
                        self.fired_at.push((kind, op, pos));
                        allowed = allowed.min(n.max(1) as usize);
                    } else if self.counters[ci].eintr_streak < MAX_EINTR_STREAK && err.is_none() {
                        self.fired[i] = 1;
                        self.fired_in.insert((op, i));
                        self.fired_at.push((kind, op, pos));
                        self.counters[ci].eintr_streak += 1;
                        err = Some(libc::EINTR);
                    }
                }
                Act::FailOpen(_) => {}
            }
        }
        if let Some(e) = err {
            // a persistent error wins over a transient one
            let hard = self.faults.iter().enumerate().any(|(i, f)| self.fired_in.contains(&(op, i)) && matches!(f.act, Act::Eio | Act::Enospc) && f.dir == dir);
            let e = if hard && e == libc::EINTR { libc::EIO } else { e };
            self.events.push(Ev { op, role, kind: dir_kind(dir), a: want as u64, b: -(e as i64) });
            return Err(e);
        }
        self.counters[ci].eintr_streak = 0;
        // chunking
        if want > 0 {
            let chunk = if dir == Dir::R { &self.chunk_r } else { &self.chunk_w };
            let c = match chunk {
                Chunk::Whole => want,
                Chunk::One => 1,
                Chunk::Rand { max, .. } => {
                    let m = (*max).max(1) as u64;
                    let z = splitmix(&mut self.counters[ci].chunk_state);
                    1 + (z % m) as usize
                }
                Chunk::Cycle(v) => {
                    if v.is_empty() {
                        want
                    } else {
                        let i = self.counters[ci].chunk_i as usize % v.len();
                        self.counters[ci].chunk_i += 1;
                        v[i].max(1) as usize
                    }
                }
            };
            allowed = allowed.min(c).max(1).min(want);
        }
        Ok(allowed)
    }

    pub fn done(&mut self, role: u16, dir: Dir, want: usize, got: i64) {
        if self.quiet {
            self.events.push(Ev { op: self.op, role, kind: dir_kind(dir), a: want as u64, b: got });
            return;
        }
        let ci = self.counter(role, dir);
        if got > 0 {
            self.counters[ci].bytes += got as u64;
            if let Some(t) = self.totals.iter_mut().find(|t| t.0 == role && t.1 == dir) {
                t.3 += got as u64;
            }
        }
        self.events.push(Ev { op: self.op, role, kind: dir_kind(dir), a: want as u64, b: got });
    }

    /// A planned fault applies to the file it names (or whose name contains that name). Write-side and open faults
    /// also apply to *any* file of the simulated disk as long as no file of the planned name has been opened in
    /// this run: code that writes somewhere else first and renames into place meets the same disk.
    fn fault_applies(&self, role: u16, f: &Fault) -> bool {
        let file = &self.roles[role as usize];
        if role_matches(file, &f.role) {
            return true;
        }
        (f.dir == Dir::W || f.dir == Dir::Open) && !self.roles.iter().any(|r| role_matches(r, &f.role))
    }

    pub fn open_fault(&mut self, role: u16) -> Option<i32> {
        let op = self.op;
        if self.quiet {
            self.events.push(Ev { op, role, kind: b'o', a: 0, b: 0 });
            return None;
        }
        for i in 0..self.faults.len() {
            let f = &self.faults[i];
            if (f.op == op || f.op == ANY_OP) && f.dir == Dir::Open && self.fault_applies(role, &self.faults[i]) {
                if let Act::FailOpen(e) = f.act {
                    if self.fired[i] == 0 {
                        self.fired_at.push(("open_fail", op, 0));
                    }
                    self.fired[i] += 1;
                    self.fired_in.insert((op, i));
                    self.events.push(Ev { op, role, kind: b'o', a: 0, b: -(e as i64) });
                    return Some(e);
                }
            }
        }
        self.events.push(Ev { op, role, kind: b'o', a: 0, b: 0 });
        None
    }

    pub fn api(&mut self, name: &str, outcome: &str) {
        let op = self.op;
        let mut h = Fnv::new();
        h.str(name);
        h.str(outcome);
        self.events.push(Ev { op, role: u16::MAX, kind: b'a', a: h.0, b: 0 });
        if self.api_log.len() < 64 {
            let mut o = outcome.to_string();
            if o.len() > 160 {
                let mut cut = 160;
                while !o.is_char_boundary(cut) {
                    cut -= 1;
                }
                o.truncate(cut);
                o.push_str("...");
            }
            self.api_log.push(format!("op{} {} -> {}", op, name, o));
        }
    }

    pub fn log_hash(&self) -> u64 {
        let mut h = Fnv::new();
        for e in &self.events {
            h.u64(e.op as u64);
            if e.role != u16::MAX {
                // file names may carry a process id or a counter (temporary files): digits do not take part
                let name: String = self.roles[e.role as usize].chars().map(|c| if c.is_ascii_digit() { '#' } else { c }).collect();
                h.str(&name);
            }
            h.bytes(&[e.kind]);
            h.u64(e.a);
            h.u64(e.b as u64);
        }
        h.0
    }

    pub fn render(&self, max: usize) -> Vec<String> {
        let mut out = Vec::new();
        for e in self.events.iter().take(max) {
            let role = if e.role == u16::MAX { "-" } else { &self.roles[e.role as usize] };
            out.push(match e.kind {
                b'a' => format!("op{} api digest={:016x}", e.op, e.a),
                k => format!(
                    "op{} {} {} want={} -> {}",
                    e.op,
                    role,
                    k as char,
                    e.a,
                    if e.b < 0 { format!("errno {}", -e.b) } else { format!("{}", e.b) }
                ),
            });
        }
        if self.events.len() > max {
            out.push(format!("... {} more events", self.events.len() - max));
        }
        out
    }

    pub fn eintr_fired(&self, op: u32) -> bool {
        self.fired_at.iter().any(|(k, o, _)| *o == op && k.starts_with("eintr"))
    }
    pub fn any_fired(&self) -> bool {
        self.fired.iter().any(|x| *x > 0)
    }
    pub fn hard_fired(&self, op: u32) -> bool {
        self.fired_in.iter().any(|(o, i)| *o == op && !self.faults[*i].transient())
    }
    pub fn transient_fired(&self, op: u32) -> bool {
        self.fired_in.iter().any(|(o, i)| *o == op && self.faults[*i].transient())
    }
    pub fn total_bytes(&self, role: &str, dir: Dir) -> u64 {
        match self.roles.iter().position(|r| r == role) {
            Some(r) => self.totals.iter().find(|t| t.0 == r as u16 && t.1 == dir).map(|t| t.3).unwrap_or(0),
            None => 0,
        }
    }
}

fn dir_kind(d: Dir) -> u8 {
    match d {
        Dir::R => b'r',
        Dir::W => b'w',
        Dir::Open => b'o',
    }
}

const MAX_FDS: usize = 64;

pub struct SimCtx {
    pub io: IoSched,
    pub rand_state: u64,
    /// simulated wall clock, nanoseconds since the epoch (may be negative: before 1970)
    pub clock_ns: i128,
    pub clock_advanced_s: u64,
    pub disk_prefix: Vec<u8>,
    fds: [(c_int, u16); MAX_FDS],
    nfds: usize,
    pub panic_msg: Option<String>,
    pub sys: SysCounts,
}

#[derive(Default, Clone, Debug)]
pub struct SysCounts {
    pub open: u64,
    pub close: u64,
    pub read: u64,
    pub write: u64,
    pub readv: u64,
    pub writev: u64,
    pub getrandom: u64,
    pub clock: u64,
    pub fsync: u64,
}

impl SimCtx {
    pub fn new(io: IoSched, hash_seed: u64, clock_s: i64, disk: &str) -> Self {
        let mut p = disk.as_bytes().to_vec();
        if !p.ends_with(b"/") {
            p.push(b'/');
        }
        SimCtx {
            io,
            rand_state: hash_seed,
            clock_ns: clock_s as i128 * 1_000_000_000,
            clock_advanced_s: 0,
            disk_prefix: p,
            fds: [(-1, 0); MAX_FDS],
            nfds: 0,
            panic_msg: None,
            sys: SysCounts::default(),
        }
    }
    pub fn jump_clock(&mut self, seconds: i64) {
        self.clock_ns += seconds as i128 * 1_000_000_000;
        self.clock_advanced_s += seconds.unsigned_abs();
    }
    fn lookup(&self, fd: c_int) -> Option<u16> {
        for i in 0..self.nfds {
            if self.fds[i].0 == fd {
                return Some(self.fds[i].1);
            }
        }
        None
    }
    fn register(&mut self, fd: c_int, role: u16) {
        if self.nfds < MAX_FDS {
            self.fds[self.nfds] = (fd, role);
            self.nfds += 1;
        }
    }
    fn unregister(&mut self, fd: c_int) {
        for i in 0..self.nfds {
            if self.fds[i].0 == fd {
                self.fds[i] = self.fds[self.nfds - 1];
                self.nfds -= 1;
                return;
            }
        }
    }
    pub fn open_fds(&self) -> usize {
        self.nfds
    }
}

thread_local! {
    static CTX: Cell<*mut SimCtx> = const { Cell::new(std::ptr::null_mut()) };
}

/// Install the context for the current (simulation) thread. The caller keeps ownership and must call
/// `uninstall` before the context is dropped.
pub fn install(ctx: *mut SimCtx) {
    CTX.with(|c| c.set(ctx));
}
pub fn uninstall() {
    CTX.with(|c| c.set(std::ptr::null_mut()));
    ABORT_FLAG.with(|c| c.set(std::ptr::null()));
}

// ---- process aborts on a simulation thread -------------------------------------------------------------
// The code under test can end the process without unwinding (failed allocation -> handle_alloc_error ->
// abort(); a panic while panicking; an explicit abort()). The simulator turns that into an observable
// outcome of the run: allocations above ALLOC_CAP fail on simulation threads (so "allocation failure" is
// a deterministic function of the requested size, not of the machine), and SIGABRT raised on a simulation
// thread marks the run as aborted and parks the thread for good instead of killing the whole batch.
thread_local! {
    static ABORT_FLAG: Cell<*const std::sync::atomic::AtomicBool> = const { Cell::new(std::ptr::null()) };
}
/// Largest single allocation a simulation thread is granted (the workloads are a few hundred kilobytes).
pub const ALLOC_CAP: usize = 256 << 20;

pub fn set_abort_flag(p: *const std::sync::atomic::AtomicBool) {
    ABORT_FLAG.with(|c| c.set(p));
}

extern "C" fn on_sigabrt(_sig: c_int) {
    let p = ABORT_FLAG.try_with(|c| c.get()).unwrap_or(std::ptr::null());
    if p.is_null() {
        // not a simulation thread: returning lets abort() finish with the default action
        return;
    }
    unsafe {
        (*p).store(true, std::sync::atomic::Ordering::SeqCst);
        loop {
            libc::pause();
        }
    }
}

pub fn install_abort_handler() {
    unsafe {
        let mut sa: libc::sigaction = std::mem::zeroed();
        sa.sa_sigaction = on_sigabrt as usize;
        libc::sigemptyset(&mut sa.sa_mask);
        libc::sigaction(libc::SIGABRT, &sa, std::ptr::null_mut());
    }
}

/// A fault planned for the file `out.mps.gz` also applies to `out.mps.gz.tmp`, `.out.mps.gz.partial` and the
/// like: writing to a temporary file that is renamed into place is the code's business, the disk fails all the same.
fn role_matches(file: &str, planned: &str) -> bool {
    file == planned || (!planned.is_empty() && file.contains(planned))
}

pub struct CapAlloc;
unsafe impl std::alloc::GlobalAlloc for CapAlloc {
    unsafe fn alloc(&self, l: std::alloc::Layout) -> *mut u8 {
        if l.size() > ALLOC_CAP && on_sim_thread() {
            return std::ptr::null_mut();
        }
        std::alloc::System.alloc(l)
    }
    unsafe fn alloc_zeroed(&self, l: std::alloc::Layout) -> *mut u8 {
        if l.size() > ALLOC_CAP && on_sim_thread() {
            return std::ptr::null_mut();
        }
        std::alloc::System.alloc_zeroed(l)
    }
    unsafe fn realloc(&self, p: *mut u8, l: std::alloc::Layout, n: usize) -> *mut u8 {
        if n > ALLOC_CAP && on_sim_thread() {
            return std::ptr::null_mut();
        }
        std::alloc::System.realloc(p, l, n)
    }
    unsafe fn dealloc(&self, p: *mut u8, l: std::alloc::Layout) {
        std::alloc::System.dealloc(p, l)
    }
}
#[inline]
fn cur() -> *mut SimCtx {
    CTX.try_with(|c| c.get()).unwrap_or(std::ptr::null_mut())
}
/// Access to the current context from harness code running on the simulation thread.
pub fn with_ctx<R>(f: impl FnOnce(&mut SimCtx) -> R) -> Option<R> {
    let p = cur();
    if p.is_null() {
        None
    } else {
        Some(f(unsafe { &mut *p }))
    }
}
pub fn on_sim_thread() -> bool {
    !cur().is_null()
}

unsafe fn set_errno(e: i32) {
    *libc::__errno_location() = e;
}

unsafe fn raw_read(fd: c_int, buf: *mut c_void, n: size_t) -> ssize_t {
    libc::syscall(libc::SYS_read, fd, buf, n) as ssize_t
}
unsafe fn raw_write(fd: c_int, buf: *const c_void, n: size_t) -> ssize_t {
    libc::syscall(libc::SYS_write, fd, buf, n) as ssize_t
}

unsafe fn do_open(dirfd: c_int, path: *const c_char, flags: c_int, mode: c_uint) -> c_int {
    let p = cur();
    if p.is_null() || path.is_null() {
        return libc::syscall(libc::SYS_openat, dirfd, path, flags, mode) as c_int;
    }
    let ctx = &mut *p;
    let bytes = std::ffi::CStr::from_ptr(path).to_bytes();
    if !bytes.starts_with(&ctx.disk_prefix) {
        return libc::syscall(libc::SYS_openat, dirfd, path, flags, mode) as c_int;
    }
    ctx.sys.open += 1;
    let rel = String::from_utf8_lossy(&bytes[ctx.disk_prefix.len()..]).into_owned();
    let role = ctx.io.role_id(&rel);
    if let Some(e) = ctx.io.open_fault(role) {
        set_errno(e);
        return -1;
    }
    let fd = libc::syscall(libc::SYS_openat, dirfd, path, flags, mode) as c_int;
    if fd >= 0 && (flags & libc::O_DIRECTORY) == 0 {
        ctx.register(fd, role);
    }
    fd
}

#[no_mangle]
pub unsafe extern "C" fn open64(path: *const c_char, flags: c_int, mode: c_uint) -> c_int {
    do_open(libc::AT_FDCWD, path, flags, mode)
}
#[no_mangle]
pub unsafe extern "C" fn open(path: *const c_char, flags: c_int, mode: c_uint) -> c_int {
    do_open(libc::AT_FDCWD, path, flags, mode)
}
#[no_mangle]
pub unsafe extern "C" fn openat(dirfd: c_int, path: *const c_char, flags: c_int, mode: c_uint) -> c_int {
    do_open(dirfd, path, flags, mode)
}
#[no_mangle]
pub unsafe extern "C" fn openat64(dirfd: c_int, path: *const c_char, flags: c_int, mode: c_uint) -> c_int {
    do_open(dirfd, path, flags, mode)
}

#[no_mangle]
pub unsafe extern "C" fn close(fd: c_int) -> c_int {
    let p = cur();
    if !p.is_null() {
        let ctx = &mut *p;
        if ctx.lookup(fd).is_some() {
            ctx.sys.close += 1;
            ctx.unregister(fd);
        }
    }
    libc::syscall(libc::SYS_close, fd) as c_int
}

#[no_mangle]
pub unsafe extern "C" fn read(fd: c_int, buf: *mut c_void, count: size_t) -> ssize_t {
    let p = cur();
    if p.is_null() {
        return raw_read(fd, buf, count);
    }
    let ctx = &mut *p;
    let Some(role) = ctx.lookup(fd) else { return raw_read(fd, buf, count) };
    ctx.sys.read += 1;
    match ctx.io.decide(role, Dir::R, count) {
        Err(e) => {
            set_errno(e);
            -1
        }
        Ok(n) => {
            let got = raw_read(fd, buf, n);
            ctx.io.done(role, Dir::R, count, got as i64);
            got
        }
    }
}

#[no_mangle]
pub unsafe extern "C" fn write(fd: c_int, buf: *const c_void, count: size_t) -> ssize_t {
    let p = cur();
    if p.is_null() {
        return raw_write(fd, buf, count);
    }
    let ctx = &mut *p;
    let Some(role) = ctx.lookup(fd) else { return raw_write(fd, buf, count) };
    ctx.sys.write += 1;
    match ctx.io.decide(role, Dir::W, count) {
        Err(e) => {
            set_errno(e);
            -1
        }
        Ok(n) => {
            let got = raw_write(fd, buf, n);
            ctx.io.done(role, Dir::W, count, got as i64);
            got
        }
    }
}

#[no_mangle]
pub unsafe extern "C" fn readv(fd: c_int, iov: *const libc::iovec, iovcnt: c_int) -> ssize_t {
    let p = cur();
    if p.is_null() || (*p).lookup(fd).is_none() {
        return libc::syscall(libc::SYS_readv, fd, iov, iovcnt) as ssize_t;
    }
    (*p).sys.readv += 1;
    // a vectored read on the sim disk is served as a plain read into the first non-empty buffer
    // (a short transfer, which the caller must tolerate)
    for i in 0..iovcnt as isize {
        let v = &*iov.offset(i);
        if v.iov_len > 0 {
            return read(fd, v.iov_base, v.iov_len);
        }
    }
    0
}

#[no_mangle]
pub unsafe extern "C" fn writev(fd: c_int, iov: *const libc::iovec, iovcnt: c_int) -> ssize_t {
    let p = cur();
    if p.is_null() || (*p).lookup(fd).is_none() {
        return libc::syscall(libc::SYS_writev, fd, iov, iovcnt) as ssize_t;
    }
    (*p).sys.writev += 1;
    for i in 0..iovcnt as isize {
        let v = &*iov.offset(i);
        if v.iov_len > 0 {
            return write(fd, v.iov_base, v.iov_len);
        }
    }
    0
}

#[no_mangle]
pub unsafe extern "C" fn fsync(fd: c_int) -> c_int {
    let p = cur();
    if !p.is_null() && (*p).lookup(fd).is_some() {
        (*p).sys.fsync += 1;
    }
    libc::syscall(libc::SYS_fsync, fd) as c_int
}
#[no_mangle]
pub unsafe extern "C" fn fdatasync(fd: c_int) -> c_int {
    let p = cur();
    if !p.is_null() && (*p).lookup(fd).is_some() {
        (*p).sys.fsync += 1;
    }
    libc::syscall(libc::SYS_fdatasync, fd) as c_int
}

#[no_mangle]
pub unsafe extern "C" fn getrandom(buf: *mut c_void, buflen: size_t, flags: c_uint) -> ssize_t {
    let p = cur();
    if p.is_null() {
        return libc::syscall(libc::SYS_getrandom, buf, buflen, flags) as ssize_t;
    }
    let ctx = &mut *p;
    ctx.sys.getrandom += 1;
    let out = std::slice::from_raw_parts_mut(buf as *mut u8, buflen);
    let mut i = 0;
    while i < buflen {
        let z = splitmix(&mut ctx.rand_state).to_le_bytes();
        let n = (buflen - i).min(8);
        out[i..i + n].copy_from_slice(&z[..n]);
        i += n;
    }
    buflen as ssize_t
}

#[no_mangle]
pub unsafe extern "C" fn clock_gettime(clk: libc::clockid_t, tp: *mut libc::timespec) -> c_int {
    let p = cur();
    if p.is_null() || clk != libc::CLOCK_REALTIME || tp.is_null() {
        return libc::syscall(libc::SYS_clock_gettime, clk, tp) as c_int;
    }
    let ctx = &mut *p;
    ctx.sys.clock += 1;
    // every reading moves the simulated clock by one microsecond, so two readings never coincide
    ctx.clock_ns += 1_000;
    let s = ctx.clock_ns.div_euclid(1_000_000_000);
    let ns = ctx.clock_ns.rem_euclid(1_000_000_000);
    (*tp).tv_sec = s as libc::time_t;
    (*tp).tv_nsec = ns as libc::c_long;
    0
}

/// monotonic wall time for budgets and evidence only (raw syscall, never the simulated clock)
pub fn mono_secs() -> f64 {
    let mut ts = libc::timespec { tv_sec: 0, tv_nsec: 0 };
    unsafe {
        libc::syscall(libc::SYS_clock_gettime, libc::CLOCK_MONOTONIC, &mut ts as *mut libc::timespec);
    }
    ts.tv_sec as f64 + ts.tv_nsec as f64 * 1e-9
}

/// In-memory twin of the file path: a `Read` over bytes, driven by the same I/O scheduler under role `role`.
pub struct SimReader {
    data: Vec<u8>,
    pos: usize,
    role: String,
}
impl SimReader {
    pub fn new(data: Vec<u8>, role: &str) -> Self {
        SimReader { data, pos: 0, role: role.to_string() }
    }
}
impl std::io::Read for SimReader {
    fn read(&mut self, buf: &mut [u8]) -> std::io::Result<usize> {
        let p = cur();
        assert!(!p.is_null(), "SimReader used outside a simulation thread");
        let ctx = unsafe { &mut *p };
        let role = ctx.io.role_id(&self.role);
        ctx.sys.read += 1;
        match ctx.io.decide(role, Dir::R, buf.len()) {
            Err(e) => Err(std::io::Error::from_raw_os_error(e)),
            Ok(n) => {
                let n = n.min(self.data.len() - self.pos);
                buf[..n].copy_from_slice(&self.data[self.pos..self.pos + n]);
                self.pos += n;
                ctx.io.done(role, Dir::R, buf.len(), n as i64);
                Ok(n)
            }
        }
    }
}
